"""Stand-alone demonstration (no simulator) of the C18 stall: with hibernation on, once every active deme is
hibernating and sprouting keeps failing, whole metaepochs pass without a single objective evaluation; with an
evaluation-based GSC hms() would never return (here the metaepoch limit ends the run)."""
import numpy as np
from pyhms import (CMALevelConfig, DontStop, EALevelConfig, FunctionProblem, MetaepochLimit, TreeConfig,
                   get_NBC_sprout)
from pyhms.tree import DemeTree

calls = []


def f(x):
    calls.append(1)
    return float(np.sum(x ** 2))


p = FunctionProblem(f, bounds=np.array([[-5.0, 5.0]] * 2), maximize=False)
cfg = TreeConfig(
    [EALevelConfig(pop_size=10, problem=p, lsc=DontStop(), generations=1, mutation_std=0.5),
     CMALevelConfig(problem=p, lsc=MetaepochLimit(2), generations=2, sigma0=0.5)],
    MetaepochLimit(30), get_NBC_sprout(level_limit=2), options={"hibernation": True, "random_seed": 1})
t = DemeTree(cfg)
empty = 0
while not t._gsc(t):
    n = len(calls)
    t.run_step()
    if len(calls) == n and any(d.is_active for _, d in t.all_demes):
        empty += 1
print("metaepochs:", t.metaepoch_count, "metaepochs without any evaluation while a deme was active:", empty)
