#!/bin/sh
# run every claimed check once (tier = $1, default quick); prints one status line per property
cd "$(dirname "$0")" || exit 2
tier="${1:-quick}"
rc=0
for p in $(/venv/bin/python -c "import json;print(' '.join(c['property_id'] for c in json.load(open('MANIFEST.json'))['checks']))"); do
  out=$(./check "$p" "$tier" 2>&1); r=$?
  echo "$p exit=$r $(echo "$out" | grep -c '^VIOLATION') violations $(echo "$out" | grep -c '^KNOWN-FINDING') known; $(echo "$out" | grep "runs in" | sed 's/, outcomes.*//')"
  [ $r -ne 0 ] && { rc=1; echo "$out" | grep -A2 "^VIOLATION\|HARNESS" | head -20; }
done
exit $rc
