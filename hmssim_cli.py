import os
import sys

sys.path.insert(0, os.path.dirname(os.path.abspath(__file__)))


def main(argv):
    if not argv:
        print(__doc__ or "usage: check Cxx quick|thorough | --replay file | --selftest")
        return 2
    from hmssim import runner

    if argv[0] == "--replay":
        return runner.replay(argv[1])
    if argv[0] == "--selftest":
        from hmssim import selftest

        return selftest.main(argv[1:])
    if argv[0] == "--c14-child":
        from hmssim.props import c14

        return c14.child_main(argv[1:])
    prop = argv[0].upper()
    tier = argv[1] if len(argv) > 1 else os.environ.get("VERIF_TIER", "quick")
    return runner.check(prop, tier)


if __name__ == "__main__":
    sys.exit(main(sys.argv[1:]))
