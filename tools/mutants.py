#!/venv/bin/python
"""Sensitivity self-test: apply small mutations of pyhms to a scratch copy (never to /repo), run the matching
checks against the copy (PYHMS_SRC) and require a VIOLATION within the quick budget.  Also runs seeded patches
kept under /verif/seeded/<id>/patch.diff.

usage: tools/mutants.py [--only name-substring] [--seeded] [--runs N] [--jobs J]
Results: /verif/selftest/mutants.json (own catalogue) and /verif/selftest/seeded.json (sub-agent changes).
"""
import concurrent.futures as cf
import glob
import json
import os
import shutil
import subprocess
import sys
import tempfile
import time

ROOT = os.path.dirname(os.path.dirname(os.path.abspath(__file__)))
REPO = "/repo"

# (name, properties expected to catch it, edits | revert)
M = []


def mut(name, props, edits=None, revert=None, note=""):
    M.append({"name": name, "props": props, "edits": edits or [], "revert": revert, "note": note})


# --- reverting each repaired defect (the checks must see the original defects again)
mut("revert-nfev", ["C03"], revert="33152f6")
mut("revert-localdeme-copy", ["C02"], [("pyhms/demes/local_deme.py", "Individual(intermediate_result.x.copy(), problem=self._problem)", "Individual(intermediate_result.x, problem=self._problem)")])
mut("revert-stale-parents", ["C11", "C12"], revert="ea3da61")
mut("revert-sleep-at-birth", ["C18"], revert="28b0eea")
mut("revert-centroid-memo", ["C09", "C20"], revert="8f0a485")
mut("revert-levellimit-maximize", ["C10", "C13"], revert="e436120")
mut("revert-nbc-str-id", ["C15"], revert="0623a42")
mut("revert-marker-zero", ["C20"], revert="2db197a")
mut("revert-cma-maximize", ["C13"], revert="92244c5")
# the commit itself no longer reverts cleanly since the LocalDeme NaN fix rewrote the neighbouring lines: same effect as an edit
mut("revert-local-maximize", ["C13"], [("pyhms/demes/local_deme.py",
    "        self._sign = -1.0 if self._problem.maximize else 1.0",
    "        self._sign = 1.0")])
mut("revert-r5s-maximize", ["C13"], revert="8bc4006")

# --- catalogue of DESIGN section 6
mut("cutoff-off-by-one", ["C03", "C16"], [("pyhms/core/problem.py", "if self._n_evals >= self._eval_cutoff:", "if self._n_evals > self._eval_cutoff:")])
mut("best-from-current-population-only", ["C04"], [("pyhms/demes/abstract_deme.py",
    "        return max(self.all_individuals) if self.all_individuals else None",
    "        return max(self.current_population) if self.current_population else None")])
mut("sprout-without-checking-gsc", ["C05"], [("pyhms/tree.py", "        if not self._gsc(self):\n            self.run_sprout()", "        self.run_sprout()")])
mut("run-as-do-while", ["C05"], [("pyhms/tree.py", "        while not self._gsc(self):\n            self.run_step()",
                                  "        while True:\n            self.run_step()\n            if self._gsc(self):\n                break")])
mut("levellimit-off-by-one", ["C08", "C10"], [("pyhms/sprout/sprout_filters.py", "                cutoff = self.limit - currently_active_level_below\n",
                                              "                cutoff = self.limit - currently_active_level_below + 1\n")])
mut("levellimit-counts-all-demes-as-free", ["C08"], [("pyhms/sprout/sprout_filters.py",
    "currently_active_level_below = len([deme for deme in tree.levels[level + 1] if deme.is_active])",
    "currently_active_level_below = len([deme for deme in tree.levels[level + 1] if deme.is_active and not deme._hibernating and deme.metaepoch_count > 0])")])
mut("seed-not-in-ea-child-population", ["C07"], [("pyhms/demes/ea_deme.py",
    "                self._pop_size - 1,\n", "                self._pop_size,\n"),
    ("pyhms/demes/ea_deme.py", "            starting_pop.append(seed_ind)\n", "            starting_pop[-1] = starting_pop[-1]\n")])
mut("elite-dropped-when-offspring-tie", ["C12"], [("pyhms/demes/single_pop_eas/sea.py",
    "        return offspring_population.merge(top_k_parent_population).topk(parent_population.size)",
    "        return top_k_parent_population.merge(offspring_population).topk(parent_population.size) if self.k_elites < 2 else offspring_population.topk(parent_population.size)")])
mut("hibernation-never-wakes", ["C18"], [("pyhms/tree.py", "                    deme._hibernating = False\n", "                    pass\n")])
mut("dump-reseeds-rng", ["C19"], [("pyhms/tree.py", "        with open(filepath, \"wb\") as f:\n            pkl.dump(self, f)",
                                   "        np.random.seed(self._random_seed)\n        with open(filepath, \"wb\") as f:\n            pkl.dump(self, f)")])
mut("accessor-sorts-history-in-place", ["C20"], [("pyhms/demes/abstract_deme.py",
    "        return max(self.current_population) if self.current_population else None",
    "        self.current_population.sort(reverse=True)\n        return self.current_population[0] if self.current_population else None")])
# --- further ones
mut("sample-normal-ignores-upper-bound", ["C01"], [("pyhms/initializers.py", "return np.all(x >= bounds[:, 0]) and np.all(x <= bounds[:, 1])",
                                                     "return np.all(x >= bounds[:, 0])")])
mut("de-donor-not-repaired-when-dither", ["C01"], [("pyhms/demes/single_pop_eas/de.py",
    "        donor = randoms[:, 0] + scaling * (randoms[:, 1] - randoms[:, 2])\n        new_genomes = apply_bounds(donor, population.problem.bounds, \"reflect\")",
    "        donor = randoms[:, 0] + scaling * (randoms[:, 1] - randoms[:, 2])\n        new_genomes = donor")])
mut("local-deme-counts-iterations", ["C03"], [("pyhms/demes/local_deme.py", "self._n_evals += result.nfev", "self._n_evals += result.nit")])
mut("ea-deme-ignores-gsc", ["C05", "C06"], [("pyhms/demes/ea_deme.py", "            if tree._gsc(tree):\n", "            if False and tree._gsc(tree):\n")])
mut("lhs-deme-lsc-ignored", ["C06"], [("pyhms/demes/lhs_deme.py", "if (gsc_value := tree._gsc(tree)) or self._lsc(self):", "if (gsc_value := tree._gsc(tree)):")])
mut("farenough-checks-inactive-only-first", ["C09"], [("pyhms/sprout/sprout_filters.py",
    "            for sibling in child_siblings:\n                child_seeds = [ind for ind in child_seeds if self._is_far_enough(ind, sibling.centroid)]",
    "            for sibling in child_siblings[:2]:\n                child_seeds = [ind for ind in child_seeds if self._is_far_enough(ind, sibling.centroid)]")])
mut("demelimit-keeps-worst-when-maximize", ["C10", "C13"], [("pyhms/sprout/sprout_filters.py",
    "candidates[deme].individuals = sorted(candidates[deme].individuals, reverse=True)[: self.limit]",
    "candidates[deme].individuals = sorted(candidates[deme].individuals, key=lambda i: i.fitness)[: self.limit]")])
mut("de-replaces-on-strict-only-max", ["C13"], [("pyhms/demes/single_pop_eas/de.py",
    "            (trial_population.fitnesses >= parent_population.fitnesses)\n            if parent_population.problem.maximize",
    "            (trial_population.fitnesses > parent_population.fitnesses)\n            if parent_population.problem.maximize")])
mut("cma-seed-from-object-id", ["C14"], [("pyhms/demes/cma_deme.py", "opts[\"seed\"] = deme_init_args.random_seed + self._started_at",
                                          "opts[\"seed\"] = deme_init_args.random_seed + self._started_at + (id(self) >> 4) % 7")])
mut("nbc-nearest-better-includes-equal", ["C15"], [("pyhms/utils/clusterization.py",
    "                better_individuals = self.individuals[: self.individuals.index(ind)]",
    "                better_individuals = self.individuals[: max(1, self.individuals.index(ind) - 1)]")])
mut("precision-eta-overwritten", ["C16"], [("pyhms/core/problem.py",
    "        if abs(fitness - self._global_optima) <= self.precision and not self.hit_precision:",
    "        if abs(fitness - self._global_optima) <= self.precision and (not self.hit_precision or fitness == self._global_optima):")])
mut("stats-counts-before-call", ["C16"], [("pyhms/core/problem.py",
    "        end_time = time.perf_counter()\n        self._n_evals += 1\n        self._durations.append(end_time - start_time)",
    "        end_time = time.perf_counter()\n        self._n_evals += 1\n        self._durations.append(max(end_time - start_time, 1e-9))")])
mut("summary-counts-active-demes-only", ["C20"], [("pyhms/tree.py", "        lines.append(f\"Number of demes: {len(self.all_demes)}\")",
                                                   "        lines.append(f\"Number of demes: {len(self.active_demes) if self.active_demes else len(self.all_demes)}\")")])
mut("pickle-drops-hibernation-flag", ["C19"], [("pyhms/demes/abstract_deme.py", "    def add_child(self, deme: \"AbstractDeme\") -> None:",
    "    def __getstate__(self):\n        state = self.__dict__.copy()\n        state[\"_hibernating\"] = False\n        return state\n\n    def add_child(self, deme: \"AbstractDeme\") -> None:")])


# removed after analysis (not property-breaking): update-genome-mask-all (rows changed in some coordinates are then not
# updated at all: genome and fitness stay consistent), child-id-collision (ids stay unique through the parent prefix),
# cma-ask-twice (cma raises on the second tell: every run dies with an exception, tests fail too).


def make_copy(m):
    d = tempfile.mkdtemp(prefix="hmssim-mut-")
    shutil.copytree(os.path.join(REPO, "pyhms"), os.path.join(d, "pyhms"))
    if m.get("revert"):
        diff = subprocess.run(["git", "-C", REPO, "show", m["revert"], "--", "pyhms"], capture_output=True, text=True, check=True).stdout
        r = subprocess.run(["git", "apply", "-R", "--directory", d.lstrip("/"), "--unsafe-paths", "-"], input=diff, text=True, capture_output=True, cwd="/")
        if r.returncode != 0:
            r = subprocess.run(["patch", "-R", "-p1", "-d", d], input=diff, text=True, capture_output=True)
            if r.returncode != 0:
                raise RuntimeError("cannot revert %s: %s" % (m["revert"], r.stdout + r.stderr))
    for f, old, new in m.get("edits", []):
        p = os.path.join(d, f)
        s = open(p).read()
        if old not in s:
            raise RuntimeError("mutant %s: pattern not found in %s" % (m["name"], f))
        open(p, "w").write(s.replace(old, new, 1))
    if m.get("patch"):
        r = subprocess.run(["patch", "-p1", "-d", d], input=open(m["patch"]).read(), text=True, capture_output=True)
        if r.returncode != 0:
            raise RuntimeError("cannot apply %s: %s" % (m["patch"], r.stdout + r.stderr))
    return d


def tests_pass(d):
    # run the repository's suite against the mutated copy
    t = tempfile.mkdtemp(prefix="hmssim-mut-test-")
    try:
        shutil.copytree(os.path.join(REPO, "test"), os.path.join(t, "test"))
        shutil.copytree(os.path.join(d, "pyhms"), os.path.join(t, "pyhms"))
        r = subprocess.run(["/venv/bin/python", "-m", "pytest", "-q", "-p", "no:cacheprovider", "-x", "--timeout=900"], cwd=t,
                           capture_output=True, text=True)
        return r.returncode == 0, r.stdout[-300:]
    finally:
        shutil.rmtree(t, ignore_errors=True)


def run_one(m, runs, workers, all_props=False):
    t0 = time.time()
    res = {"name": m["name"], "expected": m["props"], "caught_by": [], "missed_by": [], "detail": {}}
    try:
        d = make_copy(m)
    except Exception as e:
        res["error"] = str(e)
        return res
    out = tempfile.mkdtemp(prefix="hmssim-mut-out-")
    try:
        ok, tail = tests_pass(d)
        res["tests_pass"] = ok
        props = m["props"]
        if all_props:
            props = [c["property_id"] for c in json.load(open(os.path.join(ROOT, "MANIFEST.json")))["checks"]]
        for p in props:
            env = dict(os.environ)
            env.update({"PYHMS_SRC": d, "VERIF_OUT": out, "VERIF_WORKERS": str(workers), "VERIF_SHRINK": "0"})
            if runs:
                env["VERIF_RUNS"] = str(runs)
            r = subprocess.run([os.path.join(ROOT, "check"), p, "quick"], env=env, capture_output=True, text=True)
            classes = [l.strip() for l in r.stdout.splitlines() if l.strip().startswith("class=")]
            caught = r.returncode == 1 and "VIOLATION property=%s" % p in r.stdout
            (res["caught_by"] if caught else res["missed_by"]).append(p)
            res["detail"][p] = {"exit": r.returncode, "classes": [c[:160] for c in classes[:3]],
                                "harness": "HARNESS-ERROR" in r.stdout}
    finally:
        shutil.rmtree(d, ignore_errors=True)
        shutil.rmtree(out, ignore_errors=True)
    res["wall_s"] = round(time.time() - t0, 1)
    return res


def main(argv):
    only = None
    seeded = False
    runs = None
    jobs = 4
    all_props = False
    i = 0
    while i < len(argv):
        if argv[i] == "--only":
            only = argv[i + 1]
            i += 1
        elif argv[i] == "--seeded":
            seeded = True
        elif argv[i] == "--runs":
            runs = int(argv[i + 1])
            i += 1
        elif argv[i] == "--jobs":
            jobs = int(argv[i + 1])
            i += 1
        elif argv[i] == "--all-props":
            all_props = True
        i += 1
    ms = M
    outfile = "mutants.json"
    if seeded:
        ms = []
        outfile = "seeded.json"
        for meta in sorted(glob.glob(os.path.join(ROOT, "seeded", "*", "meta.json"))):
            md = json.load(open(meta))
            ms.append({"name": os.path.basename(os.path.dirname(meta)), "props": [md["property"]],
                       "patch": os.path.join(os.path.dirname(meta), "patch.diff")})
    if only:
        ms = [m for m in ms if only in m["name"]]
    workers = max(2, (os.cpu_count() or 4) // jobs)
    results = []
    with cf.ThreadPoolExecutor(max_workers=jobs) as ex:
        for r in ex.map(lambda m: run_one(m, runs, workers, all_props), ms):
            results.append(r)
            status = "CAUGHT" if r.get("caught_by") and not r.get("error") else ("ERROR " + r.get("error", "") if r.get("error") else "MISSED")
            print("%-45s %-7s caught_by=%s missed_by=%s tests_pass=%s %s" % (
                r["name"], status, r.get("caught_by"), r.get("missed_by"), r.get("tests_pass"),
                [d["classes"][:1] for d in r.get("detail", {}).values()]), flush=True)
    os.makedirs(os.path.join(ROOT, "selftest"), exist_ok=True)
    path = os.path.join(ROOT, "selftest", outfile)
    old = {}
    if only and os.path.exists(path):
        old = {r["name"]: r for r in json.load(open(path))["results"]}
    for r in results:
        old[r["name"]] = r
    final = list(old.values()) if only else results
    json.dump({"pyhms_head": subprocess.run(["git", "-C", REPO, "rev-parse", "--short", "HEAD"], capture_output=True, text=True).stdout.strip(),
               "results": final}, open(path, "w"), indent=1)
    missed = [r["name"] for r in final if not r.get("caught_by")]
    print("%d mutants, %d caught, missed: %s" % (len(final), len(final) - len(missed), missed))
    return 0


if __name__ == "__main__":
    sys.exit(main(sys.argv[1:]))
