#!/venv/bin/python
"""Regenerate /verif/MANIFEST.json from the property modules that exist (keeps the manifest valid at all times)."""
import json
import os
import sys

ROOT = os.path.dirname(os.path.dirname(os.path.abspath(__file__)))
sys.path.insert(0, ROOT)

TEXT = {
    "C01": ("every objective invocation, stored genome, sprout seed and minimize().x checked against the box, on seeded "
            "simulated runs over all engine mixes / boxes / stop conditions with budget-exhaustion and stop-signal faults", "4/C01"),
    "C02": ("bitwise re-evaluation of every stored individual with an untapped twin of the objective, sentinel accepted "
            "only for genomes whose request the tap saw refused; digests of recorded generations re-checked at every later boundary", "4/C02"),
    "C03": ("request / forward / refusal logs of taps around every wrapper layer compared with tree, level and deme "
            "counters at every GSC consult; minimize nfev vs calls; hard budgets", "4/C03"),
    "C04": ("brute-force best over all histories at every boundary with independent comparison code; monotone best; "
            "best-ever-observed per level; twin minimize budgets N1<N2 (prefix of the call log)", "4/C04"),
    "C05": ("the pass-through GSC is the simulator tick: first-true consult located in the deme schedule (shipped GSCs and "
            "an injected sticky stop signal at an arbitrary consult), wind-down bound per deme, metaepoch counter", "4/C05"),
    "C06": ("per-deme lifecycle automaton driven by the event log, with injected LSC verdicts; frozen-after-stop digests", "4/C06"),
    "C07": ("structural invariants of the tree at every boundary and sprouting round, seed provenance at the sprout seam, custom deme classes", "4/C07"),
    "C08": ("census of active demes per level at every event (every evaluation request, consult and sprout step) against the configured LevelLimit", "4/C08"),
    "C09": ("non-perturbing centroid read vs recomputed mean at every consult; distance of accepted seeds to recomputed centroids at the filter seam", "4/C09"),
    "C10": ("reference specification of generators / filters evaluated on every candidate set the simulated trees produce (in situ)", "4/C10"),
    "C11": ("join of generation-by-generation histories with the sequence-stamped request log; parents handed to SEA engines compared with the previous generation", "4/C11"),
    "C12": ("per-generation best / sorted-fitness vectors / sizes along every history, sentinels count as worst", "4/C12"),
    "C13": ("twin simulations (f, max) vs (-f, min) for index-stable engine mixes; shadow twins of engine / filter / NBC / R5S decisions in situ", "4/C13"),
    "C14": ("same plan re-executed under perturbed prior RNG state, virtual clock offsets, late in a worker's life and in fresh interpreters with other hash seeds; digest equality", "4/C14"),
    "C15": ("O(n^2) reference NBC on every population a simulated tree hands to the clustering, plus metamorphic re-runs of those populations (in situ)", "4/C15"),
    "C16": ("taps between all layers of generated wrapper stacks + lock-step reference models, driven by the engines' own call sequences, cutoff and clock faults", "4/C16"),
    "C18": ("hibernation automaton per deme joined with sprout-seam records; stall (lasso) detection", "4/C18"),
    "C19": ("crash-restart: snapshot at any boundary to a fake file system, crash at any later consult, restart from the snapshot; digest equality and invariant monitors on the continued run; dump I/O faults", "4/C19"),
    "C20": ("parsed summary() / tree() vs public state at every boundary; observer-interference probes at arbitrary consults + twin run without probes", "4/C20"),
}

NA_FIXED = {
    "C17": "pure function of its input (apply_bounds: no state, schedule, clock, I/O or interaction), quantified over all "
           "vectors and boxes; the deciding inputs (exactly on a face, one ulp outside, exact multiples of an inexact "
           "range) are all but unreachable by seeded trajectories (one was reached in 150 000 thorough C01 runs and "
           "repaired as a C01 finding) and could otherwise only be forced by overwriting RNG draws, which no real seed "
           "reproduces - deterministic simulation decides a sliver of the statement at best (DESIGN.md section 5)",
}


def main():
    props = [json.loads(l)["id"] for l in open(os.path.join(ROOT, "properties.jsonl"))]
    checks = []
    na = []
    for pid in props:
        mod = os.path.join(ROOT, "hmssim", "props", pid.lower() + ".py")
        if pid in NA_FIXED:
            na.append({"property_id": pid, "reason": NA_FIXED[pid]})
            continue
        if not os.path.exists(mod):
            na.append({"property_id": pid, "reason": "check not built yet (work in progress; planned in DESIGN.md section 4)"})
            continue
        text, ref = TEXT[pid]
        checks.append({
            "property_id": pid,
            "quick_cmd": "./check %s quick" % pid,
            "thorough_cmd": "./check %s thorough" % pid,
            "evidence_file": "/verif/evidence/%s.json" % pid,
            "replay_cmd_template": "./check --replay {path}",
            "engine": "hmssim",
            "level_claimed": {
                "category": "exploration",
                "text": "Seeded search over simulated runs (plans = configuration + fault schedule, one integer each): " + text
                        + ". Sampling, not enumeration: a clean batch is evidence that the property holds on the explored "
                          "trajectories, not a proof; this is the level the technique can give for a universally "
                          "quantified statement over trajectories and fault instants.",
                "design_ref": "DESIGN.md section " + ref,
            },
            "level_note": "Trusted: the simulator's taps being transparent (checked by the determinism self-test and by the "
                          "twin run without probes in C20), the synthetic objective catalogue, virtual clock, fake file "
                          "system; numpy/scipy/cma/dill run real code. Exact oracles or explicit no-verdict bands only.",
            "technique": "deterministic simulation with fault injection (seeded plans, pass-through taps, in-run monitors, plan shrinking, replay files)",
        })
    man = {
        "version": 1,
        "setup_cmd": "/venv/bin/python -B -m compileall -q hmssim >/dev/null 2>&1; ./check --selftest 6",
        "hooks": {
            "guard": "PYHMS_VERIF",
            "enable": "no hooks: every seam is a user-supplied callable of pyhms' public API (objective, problem wrappers, "
                      "GSC, LSC, sprout generator / filters, ea_class, DemeTree subclass); checks import pyhms from "
                      "/repo's working tree (PYHMS_SRC, default /repo) - nothing to build",
            "baseline_off_cmd": "cd /repo && /venv/bin/python -m pytest -ra -q -p no:cacheprovider --timeout=900 --continue-on-collection-errors",
            "source_commits": [],
            "add_only": True,
        },
        "engines": [{
            "name": "hmssim",
            "path": "/verif/hmssim",
            "serves_properties": [c["property_id"] for c in checks],
            "kind_free_text": "deterministic simulator for pyhms: seeded plan generator, pass-through taps (objective, wrapper "
                              "layers, GSC, LSC, sprout seam, engine), virtual clock, fake file system, fault injection "
                              "(budget exhaustion, stop signal, LSC verdicts, crash-restart, dump I/O failure, clock jumps, "
                              "prior-state perturbation, observer interference), in-run monitors, shrinker, replay",
        }],
        "checks": checks,
        "not_applicable": na,
        "notes": "Exit codes of ./check: 0 held on everything explored, 1 violation (VIOLATION property=<id> replay=<path>), "
                 "2 harness error. Known findings: /verif/known_findings.json. Env: VERIF_SEED, VERIF_TIER, VERIF_RUNS, "
                 "VERIF_BUDGET_S, VERIF_WORKERS, PYHMS_SRC.",
    }
    with open(os.path.join(ROOT, "MANIFEST.json"), "w") as f:
        json.dump(man, f, indent=1)
    print("MANIFEST.json: %d checks, %d not_applicable" % (len(checks), len(na)))


if __name__ == "__main__":
    main()
