#!/venv/bin/python
"""Confirm sub-agent seeded changes in their scratch worktree and import them into /verif/seeded/<id>/.
usage: tools/verify_seeded.py C02 C03 ...   (worktrees under /tmp/wt/<prop>)"""
import json
import os
import shutil
import subprocess
import sys

ROOT = os.path.dirname(os.path.dirname(os.path.abspath(__file__)))


def sh(cmd, cwd, timeout=1200):
    r = subprocess.run(cmd, cwd=cwd, shell=True, capture_output=True, text=True, timeout=timeout)
    return r.returncode, (r.stdout + r.stderr)[-1500:]


def main(props):
    base = os.environ.get("SEED_WT", "/tmp/wt")
    off = int(os.environ.get("SEED_OFFSET", "0"))
    for p in props:
        wt = "%s/%s" % (base, p)
        for n in (1, 2):
            patch = os.path.join(wt, "_seeded", "patch%d.diff" % n)
            demo = os.path.join(wt, "_seeded", "demo%d.py" % n)
            meta = os.path.join(wt, "_seeded", "meta%d.json" % n)
            if not (os.path.exists(patch) and os.path.exists(demo)):
                print(p, n, "MISSING deliverables")
                continue
            sh("git checkout -- pyhms", wt)
            rc0, out0 = sh("/venv/bin/python _seeded/demo%d.py" % n, wt)
            rca, outa = sh("git apply --check _seeded/patch%d.diff && git apply _seeded/patch%d.diff" % (n, n), wt)
            only_pyhms = all(l.split()[-1].startswith("b/pyhms/") for l in open(patch) if l.startswith("diff --git"))
            rct, outt = sh("/venv/bin/python -m pytest -q -p no:cacheprovider --timeout=900 -x", wt)
            rc1, out1 = sh("/venv/bin/python _seeded/demo%d.py" % n, wt)
            sh("git checkout -- pyhms", wt)
            ok = rc0 == 0 and rca == 0 and rct == 0 and rc1 == 1 and only_pyhms
            print("%s-%d %s  demo_without=%d apply=%d tests=%d demo_with=%d only_pyhms=%s" % (
                p, n, "CONFIRMED" if ok else "REJECTED", rc0, rca, rct, rc1, only_pyhms), flush=True)
            if not ok:
                print("   ", (out1 if rc1 != 1 else outt if rct else out0)[-400:].replace("\n", " | "))
                continue
            dst = os.path.join(ROOT, "seeded", "%s-%d" % (p, n + off))
            os.makedirs(dst, exist_ok=True)
            shutil.copy(patch, os.path.join(dst, "patch.diff"))
            shutil.copy(demo, os.path.join(dst, "demo.py"))
            md = json.load(open(meta)) if os.path.exists(meta) else {}
            md["property"] = p
            md["origin"] = "independent sub-agent, given only the property text and a scratch worktree of /repo at " + \
                subprocess.run(["git", "-C", "/repo", "rev-parse", "--short", "HEAD"], capture_output=True, text=True).stdout.strip()
            md["confirmed_by_me"] = {
                "what_i_ran": "in the scratch worktree: demo on clean tree (exit 0), git apply, full pytest suite (55 passed), demo (exit 1), git checkout",
                "tests_pass_with_patch": True, "demo_exit_with_patch": rc1, "demo_exit_without_patch": rc0,
                "demo_output_with_patch": out1[-600:],
            }
            json.dump(md, open(os.path.join(dst, "meta.json"), "w"), indent=1)


if __name__ == "__main__":
    main(sys.argv[1:])
