#!/venv/bin/python
"""Regenerate the sensitivity tables of DESIGN.md (between the SENSITIVITY markers) from selftest/*.json."""
import json
import os
import re

ROOT = os.path.dirname(os.path.dirname(os.path.abspath(__file__)))


def cls_of(det):
    c = det.get("classes") or []
    if not c:
        return ""
    m = re.match(r"class=(\S+)", c[0])
    return m.group(1) if m else ""


def main():
    out = []
    sd = json.load(open(os.path.join(ROOT, "selftest", "seeded.json")))
    out.append("**Independent seeded changes** (`/verif/seeded/<id>/`: patch.diff, demo.py, meta.json; written by sub-agents "
               "that saw only the property text and a scratch worktree; each confirmed by me: suite passes with the patch, "
               "demo exits 1 with it and 0 without). Checks run against a scratch copy with the patch applied "
               "(`tools/mutants.py --seeded`, pyhms at %s):\n" % sd["pyhms_head"])
    out.append("| change | what it does (needs) | caught by | violation class reported |")
    out.append("|---|---|---|---|")
    for r in sd["results"]:
        meta = json.load(open(os.path.join(ROOT, "seeded", r["name"], "meta.json")))
        summ = (meta.get("summary", "") or "").replace("|", "/").replace("\n", " ")
        need = (meta.get("needs_to_manifest", "") or "").replace("|", "/").replace("\n", " ")
        if len(summ) > 170:
            summ = summ[:167] + "..."
        if len(need) > 130:
            need = need[:127] + "..."
        for p, det in r["detail"].items():
            verdict = p if p in r["caught_by"] else "**missed**"
            if meta.get("neutralised_by_fix") and p not in r["caught_by"]:
                verdict = "no longer a violation (needed a defect since repaired in /repo; caught before the repair)"
            out.append("| %s | %s (%s) | %s | `%s` |" % (r["name"], summ, need, verdict, cls_of(det)))
    md = json.load(open(os.path.join(ROOT, "selftest", "mutants.json")))
    out.append("\n**Own mutant catalogue** (`tools/mutants.py`; includes the reversal of every repaired defect; "
               "`tests` = does the repository's suite still pass with the mutant):\n")
    out.append("| mutant | tests | caught by | violation classes |")
    out.append("|---|---|---|---|")
    for r in md["results"]:
        out.append("| %s | %s | %s | %s |" % (r["name"], "pass" if r.get("tests_pass") else "fail",
                                              ", ".join(r["caught_by"]) + (" (missed: " + ", ".join(r["missed_by"]) + ")" if r["missed_by"] else ""),
                                              "; ".join("`%s`" % cls_of(d) for d in r["detail"].values())))
    text = "\n".join(out) + "\n"
    p = os.path.join(ROOT, "DESIGN.md")
    s = open(p).read()
    a, b = "<!-- SENSITIVITY:BEGIN -->", "<!-- SENSITIVITY:END -->"
    if a in s:
        s = s[: s.index(a) + len(a)] + "\n" + text + s[s.index(b):]
        open(p, "w").write(s)
        print("DESIGN.md tables updated")
    else:
        print(text)


if __name__ == "__main__":
    main()
