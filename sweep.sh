#!/bin/sh
# quick tier of every check for several batch seeds: ./sweep.sh 1 2 3 ...   (prints only failures and a summary)
cd "$(dirname "$0")" || exit 2
rc=0
for sd in "$@"; do
  out=$(VERIF_SEED=$sd ./runall.sh quick 2>&1)
  bad=$(echo "$out" | grep -c "exit=[12]")
  echo "VERIF_SEED=$sd: $(echo "$out" | grep -c 'exit=0') ok, $bad not ok"
  [ "$bad" -ne 0 ] && { rc=1; echo "$out" | grep -A3 "exit=[12]"; }
done
exit $rc
