"""hmssim - deterministic simulation with fault injection for pyhms.

Importing this package pins the environment the simulator depends on (single
threaded BLAS, pyhms imported from PYHMS_SRC) *before* numpy / pyhms are imported.
"""
import os
import sys

for _v in ("OMP_NUM_THREADS", "OPENBLAS_NUM_THREADS", "MKL_NUM_THREADS", "NUMEXPR_NUM_THREADS"):
    os.environ[_v] = "1"
os.environ.setdefault("MPLBACKEND", "Agg")

PYHMS_SRC = os.environ.get("PYHMS_SRC", "/repo")
if PYHMS_SRC not in sys.path:
    sys.path.insert(0, PYHMS_SRC)

VERIF_ROOT = os.path.dirname(os.path.dirname(os.path.abspath(__file__)))
