"""C04 - the reported best is the true best of everything kept, and never gets worse."""
import copy

import numpy as np

from .. import plan as P
from ..sim import Monitor
from .common import all_demes, flat, gb, same_float, strictly_better

PROP = "C04"
N_QUICK = 3000
N_THOROUGH = 80000
RULE = ("Plans: all engine mixes, both directions, plateau / tie objectives, all GSCs, budget exhaustion and stop-signal "
        "faults; 30% of the plans are twin minimize() runs (same seed, budgets N1 < N2) whose call logs are compared.")
NONTRIVIAL_RULE = ">= 2 boundaries at which the brute-force best over all histories was compared with the reported best"
EXPECTED_PROBES = ["c04-boundary-judgements", "c04-level-best-vs-observed", "c04-twin-prefix-checked", "c04-ties-at-best",
                   "c04-best-improved", "c04-mid-metaepoch-reads"]
ASSUMPTIONS = ["'best ever observed' for a level = best value returned by an objective invocation requested by a deme of that level (refused requests excluded)"]

PROFILE = P.profile(p_cutoff=0.3, p_no_elite=0.08, entry_w={"tree": 8, "hms": 1, "minimize": 0},
                    objective_kinds=None)
TWIN_PROFILE = P.profile(entry_w={"tree": 0, "hms": 0, "minimize": 1}, p_seeded=1.0)


def gen(seed, tier):
    if seed % 10 < 3:
        pl = P.gen_plan(seed, TWIN_PROFILE, PROP)
        m = pl["minimize"]
        if m.get("maxfun") is None:
            m["maxfun"] = 50 + seed % 300
        m["maxiter"] = None
        if m.get("seed") is None:
            m["seed"] = seed % 100000
        if (seed // 10) % 6 == 0:
            m["seed"] = 0  # a legal seed that is falsy
        pl["twin_maxfun"] = m["maxfun"] + 1 + (seed // 10) % (2 * m["maxfun"])
        return pl
    pl = P.gen_plan(seed, PROFILE, PROP)
    # half of the plans: the bests are also *read* after every generation of every deme, as a user-defined stop
    # condition may do (looking must not change what is reported later)
    pl["c04_midreads"] = (seed // 7) % 2 == 0
    if seed % 10 == 3 and "levels" in pl:
        from .. import objectives as _o
        import random as _r

        # an objective that returns Python ints for some points and floats for others
        pl["objective"] = _o.gen_objective(_r.Random(seed), pl["dim"], pl["box"], pl["maximize"], ["clipint"])
    if "levels" in pl and seed % 10 == 6 and len(pl["levels"]) >= 2 and not pl.get("inf_objective"):
        # the run ends by reaching a target precision, typically inside the initial population of a fresh child
        from .. import objectives as _o
        import random as _r

        r = _r.Random(seed ^ 0xC04)
        minr = min(h - l for l, h in pl["box"])
        cen = [l + (h - l) * r.choice([0.3, 0.5, 0.7]) for l, h in pl["box"]]
        pl["objective"] = {"kind": "sphere", "center": cen, "scale": 1.0, "offset": r.choice([0.0, 1.5, -3.0]),
                           "sign": -1.0 if pl["maximize"] else 1.0}
        pl.pop("stack_objectives", None)
        opt = _o.known_optimum_value(pl["objective"])
        pl["stacks"] = [{"layers": [{"kind": "precision", "opt": opt, "eps": r.choice([0.003, 0.01, 0.05]) * minr * minr}]}]
        pl["level_stack"] = [0] * len(pl["levels"])
        pl["gsc"] = {"kind": "precision", "stack": 0}
        pl["faults"] = {k: v for k, v in pl.get("faults", {}).items() if k != "stop_at_consult"}
    if "stacks" in pl and seed % 9 == 0:
        # evaluation caches on; an earlier tree of this process ran the same seeds on another objective
        import copy as _c

        for st in pl["stacks"]:
            st["use_cache"] = True
        o2 = _c.deepcopy(pl["objective"])
        o2["offset"] = o2.get("offset", 0.0) - 50.0 if not pl["maximize"] else o2.get("offset", 0.0) + 50.0
        pl["preceded_by"] = [{"objective": o2, "faults": {}}]
        pl["uses_cache"] = True
    return pl


class C04Monitor(Monitor):
    prop = PROP

    def __init__(self, w):
        super().__init__(w)
        self.maximize = bool(w.plan["maximize"])
        self.prev_best = None
        self.n_b = 0
        self.inv_seen = 0
        self.level_obs = {}  # level -> best observed value
        self.level_vals = {}  # level -> set of observed values

    def _absorb_calls(self):
        w = self.w
        for (seq, stack_id, d_ord, g, v) in w.calls[self.inv_seen:]:
            if d_ord < 0:
                continue
            lvl = w.deme_list[d_ord].obj._level
            self.level_vals.setdefault(lvl, set()).add(v)
            cur = self.level_obs.get(lvl)
            if cur is None or strictly_better(v, cur, self.maximize):
                self.level_obs[lvl] = v
        self.inv_seen = len(w.calls)

    def _judge(self, tree, where):
        w = self.w
        mx = self.maximize
        self.n_b += 1
        w.probe("c04-boundary-judgements")
        best_all = None
        n_ties = 0
        everything = []
        for d in all_demes(tree):
            inds = [i for g in flat(d) for i in g]
            everything.extend(inds)
            db = d.best_individual
            if inds:
                bf = None
                for i in inds:
                    if bf is None or strictly_better(i.fitness, bf, mx):
                        bf = i.fitness
                if db is None:
                    self.violate("deme-best-missing", {"deme": d.id})
                else:
                    if not any(i is db or (same_float(i.fitness, db.fitness) and gb(i.genome) == gb(db.genome)) for i in inds):
                        self.violate("deme-best-not-in-history/" + type(d).__name__, {"deme": d.id, "where": where})
                    if strictly_better(bf, db.fitness, mx):
                        self.violate("deme-best-not-best/" + type(d).__name__,
                                     {"deme": d.id, "reported": float(db.fitness), "true_best": float(bf), "where": where})
        tb = tree.best_individual
        for i in everything:
            if best_all is None or strictly_better(i.fitness, best_all, mx):
                best_all = i.fitness
        n_ties = sum(1 for i in everything if same_float(i.fitness, best_all))
        if n_ties > 1:
            w.probe("c04-ties-at-best")
        if tb is None:
            self.violate("tree-best-missing", {})
            return
        if not any(i is tb or (same_float(i.fitness, tb.fitness) and gb(i.genome) == gb(tb.genome)) for i in everything):
            self.violate("tree-best-not-in-history", {"where": where})
        if strictly_better(best_all, tb.fitness, mx):
            self.violate("tree-best-not-best", {"reported": float(tb.fitness), "true_best": float(best_all), "where": where})
        if self.prev_best is not None:
            if strictly_better(self.prev_best, tb.fitness, mx):
                self.violate("best-got-worse", {"before": float(self.prev_best), "after": float(tb.fitness), "where": where})
            elif strictly_better(tb.fitness, self.prev_best, mx):
                w.probe("c04-best-improved")
        self.prev_best = tb.fitness
        # best ever observed per level (all engines except the local optimiser)
        self._absorb_calls()
        for li, lv in enumerate(tree.levels):
            if not lv or w.plan.get("levels") is None:
                continue
            if any(type(d).__name__ == "LocalDeme" for d in lv):
                continue
            obs = self.level_obs.get(li)
            if obs is None:
                continue
            lb = None
            for d in lv:
                for g in flat(d):
                    for i in g:
                        if lb is None or strictly_better(i.fitness, lb, mx):
                            lb = i.fitness
            w.probe("c04-level-best-vs-observed")
            if lb is not None and strictly_better(lb, obs, mx) and abs(lb) != float("inf"):
                # the reported best must be a value the objective really returned in this run; it may stem from
                # a parent's individual (a seed kept as it is): look at the levels above as well
                seen = any(lb in self.level_vals.get(l2, ()) for l2 in range(li + 1))
                if not seen:
                    self.violate("level-best-never-observed/" + type(lv[0]).__name__,
                                 {"level": li, "best_in_histories": float(lb), "best_observed": float(obs), "where": where})
            if lb is None or strictly_better(obs, lb, mx):
                self.violate("level-best-lost/" + type(lv[0]).__name__,
                             {"level": li, "best_in_histories": None if lb is None else float(lb),
                              "best_observed": float(obs), "where": where})

    def on_boundary(self, tree):
        self._judge(tree, "boundary")

    def on_consult(self, tree, site, deme, raw, verdict):
        if site != "boundary" and self.w.plan.get("c04_midreads") and self.w.tree_ready:
            self.w.probe("c04-mid-metaepoch-reads")
            tree.best_individual
            for d in all_demes(tree):
                d.best_individual

    def on_end(self, tree, outcome):
        w = self.w
        if w.plan.get("entry") == "minimize" and outcome == "returned":
            res = w.result
            vals = [c[4] for c in w.calls]
            if vals:
                mn = min(vals)
                if not same_float(res.fun, mn):
                    self.violate("minimize-fun-not-min-observed", {"fun": float(res.fun), "min_observed": float(mn)})


MONITORS = [C04Monitor]


def nontrivial(w):
    return w.probes.get("c04-boundary-judgements", 0) >= 2 or w.probes.get("c04-twin-prefix-checked", 0) > 0


def run(plan):
    from .. import build, runner
    import sys

    mod = sys.modules[__name__]
    w = build.execute(plan, MONITORS)
    try:
        extra = {}
        if "twin_maxfun" in plan and w.outcome == "returned":
            p2 = copy.deepcopy(plan)
            p2["minimize"]["maxfun"] = plan["twin_maxfun"]
            # the second run starts from another prior state of the global generators: with a seed given the
            # evaluations must be the same anyway
            p2["prior_seed"] = (plan["prior_seed"] + 12345) % (2 ** 31)
            p2["prior_junk"] = 11
            p2["entropy_seed"] = plan.get("entropy_seed", 0) + 7
            w2 = build.execute(p2, MONITORS)
            try:
                if w2.outcome == "returned":
                    c1 = [(c[3], c[4]) for c in w.calls]
                    c2 = [(c[3], c[4]) for c in w2.calls]
                    w.probe("c04-twin-prefix-checked")
                    if c2[:len(c1)] != c1:
                        k = next((i for i in range(min(len(c1), len(c2))) if c1[i] != c2[i]), min(len(c1), len(c2)))
                        w.violate(PROP, "twin-not-prefix", {"n1": plan["minimize"]["maxfun"], "n2": plan["twin_maxfun"],
                                                            "calls1": len(c1), "calls2": len(c2), "first_diff": k})
                    if w2.result.fun > w.result.fun:
                        w.violate(PROP, "twin-larger-budget-worse", {"fun1": float(w.result.fun), "fun2": float(w2.result.fun)})
                    w.violations.extend(w2.violations)
                w.n_requests += w2.n_requests
                w.n_invocations += w2.n_invocations
            finally:
                w2.dispose()
        return runner.summarize_world(w, mod, plan, extra)
    finally:
        w.dispose()
