"""C16 - problem wrappers are transparent and their counters follow simple laws."""
import math
import random

from .. import plan as P
from ..sim import Monitor
from .common import all_demes, same_float
from pyhms.core.problem import EvalCountingProblem, EvalCutoffProblem, PrecisionCutoffProblem, StatsGatheringProblem

PROP = "C16"
N_QUICK = 8000
N_THOROUGH = 200000
RULE = ("Generated wrapper stacks of depth 1-4 over {counting, cutoff(N), precision(opt, eps), stats} in every order "
        "(repeats allowed), both directions, shared by several levels or one per level, topped by every deme's own "
        "counting wrapper; taps between all layers feed lock-step reference models. Call sequences are those real "
        "engines (all engine mixes) and minimize() generate, including calls past the cutoff during wind-down, "
        "repeated precision hits, clock jumps and zero durations.")
NONTRIVIAL_RULE = ">= 1 stack of depth >= 2 whose layers were all compared with their reference models on >= 1 request after a completed metaepoch"
EXPECTED_PROBES = ["c16-requests-modelled", "c16-cutoff-refusals-modelled", "c16-precision-hit-modelled",
                   "c16-precision-repeated-hit", "c16-stats-durations-checked", "c16-zero-duration", "c16-depth-4-stack",
                   "c16-transparency-attrs-checked", "c16-deme-wrapper-checked", "c16-precision-gsc-checked",
                   "c16-two-cutoffs-in-stack"]
ASSUMPTIONS = ["durations are differences of the virtual clock, which advances only inside the objective"]

PROFILE = P.profile(p_extra_layers=1.0, p_cutoff=0.5, p_clock_jumps=0.5, p_shared_stack=0.5,
                    root_engines={"custom": 1.5}, mid_engines={"custom": 1.0}, leaf_engines={"custom": 1.0},
                    entry_w={"tree": 9, "hms": 1, "minimize": 1},
                    gsc_w={"metaepoch_limit": 4, "singular_eval_limit": 3, "fitness_eval_limit": 2, "precision": 3,
                           "root_stopped": 0.5, "all_stopped": 0.5, "no_active_nonroot": 0.5, "dont_run": 0.1})


def gen(seed, tier):
    pl = P.gen_plan(seed, PROFILE, PROP)
    if "stacks" not in pl:
        return pl
    r = random.Random(seed ^ 0xC16)
    from .. import objectives

    opt = objectives.known_optimum_value(pl["objective"])
    minr = min(h - l for l, h in pl["box"])
    rough = sum(l.get("pop_size", 8) * l.get("generations", 1) for l in pl["levels"]) * 8
    for si, st in enumerate(pl["stacks"]):
        depth = r.choice([1, 2, 2, 3, 3, 4, 4])
        layers = []
        for _ in range(depth):
            k = r.choice(["count", "cutoff", "precision", "stats"])
            if k == "cutoff":
                layers.append({"kind": "cutoff", "n": P.loguniform_int(r, 1, max(30, rough))})
            elif k == "precision":
                layers.append({"kind": "precision", "opt": opt + r.choice([0.0, 0.0, 0.5, -1.0]),
                               "eps": r.choice([1e-8, 1e-3, 0.1, 1.0, 100.0, 1e6]) * max(1.0, minr * minr)})
            else:
                layers.append({"kind": k})
        if pl["gsc"]["kind"] == "precision" and si == 0 and not any(l["kind"] == "precision" for l in layers):
            layers[r.randrange(len(layers))] = {"kind": "precision", "opt": opt, "eps": 0.1 * max(1.0, minr * minr)}
        st["layers"] = layers
    # zero-duration / jump faults early enough to fire
    for st in pl["stacks"]:
        for l in st["layers"]:
            if l["kind"] == "cutoff":
                # only the lowest cutoff of a stack: the layers below it were evaluated a few times before the budget
                # was put around them (every cutoff layer itself is then still brand new when the tree is built)
                if r.random() < 0.25:
                    l["pre_evals"] = r.randint(1, 4)
                break
    if seed % 2 == 0:
        for l in pl["levels"]:
            if l["engine"] == "custom":
                l["custom_fine"] = True  # a user engine that breeds with Individual.clone() and evaluates the clones
                pl["entry"] = "tree"
    if seed % 9 == 5 and "levels" in pl and pl["gsc"]["kind"] != "precision":
        # the innermost problem is a user-defined Problem with its own order (closer to a target value is better)
        for st in pl["stacks"]:
            st["innermost_target"] = opt + (-1.0 if pl["maximize"] else 1.0) * 0.05 * minr * minr
            st.pop("use_cache", None)
    if seed % 83 == 11:
        # long-lived wrapper instances: 10^3 .. 3*10^5 evaluations went through the stack before this tree
        for st in pl["stacks"]:
            n = P.loguniform_int(r, 1000, 300000)
            cut = [l for l in st["layers"] if l["kind"] == "cutoff"]
            if cut:
                cut[0]["pre_evals"] = n
            else:
                st["pre_evals_top"] = n
    if "jumps" in pl["clock"]:
        pl["clock"]["jumps"] = {str(P.loguniform_int(r, 1, 300)): r.choice([0.0, 0.0, 5.0, 86400.0, 3.2e7])
                                for _ in range(r.randint(1, 5))}
    return pl


class LayerModel:
    def __init__(self, layer, maximize):
        self.layer = layer
        self.kind = type(layer).__name__
        self.calls = 0
        self.forwarded = 0
        self.maximize = maximize
        self.hit = False
        self.eta = math.inf
        self.hits = 0
        self.durations = 0
        # a layer may have been used before the tree was built (its own history is legitimate state) - except a
        # cutoff layer, which the plans always create last: its budget starts with the first call it receives
        if self.kind != "EvalCutoffProblem":
            self.forwarded = int(getattr(layer, "n_evaluations", 0) or 0)
            if self.kind == "PrecisionCutoffProblem":
                self.hit = bool(layer.hit_precision)
                self.eta = layer.ETA
                self.hits = 1 if self.hit else 0


class C16Monitor(Monitor):
    prop = PROP

    def __init__(self, w):
        super().__init__(w)
        self.maximize = bool(w.plan["maximize"])
        self.models = None
        self.cur = {}  # stack_id -> dict(entered=set(pos), vals={pos: ret}, t_in={pos: clock})
        self.bottom_val = {}
        self.recent = [0.0, 1.0, -1.0, math.inf, -math.inf]
        self.first_hit_consult = None

    def _ensure(self):
        if self.models is None:
            self.models = []
            for st in self.w.stacks:
                self.models.append([LayerModel(l, self.maximize) for l in st["layers"]])
                if len(st["layers"]) == 4:
                    self.w.probe("c16-depth-4-stack")
                if sum(1 for l in st["layers"] if isinstance(l, EvalCutoffProblem)) >= 2:
                    self.w.probe("c16-two-cutoffs-in-stack")

    def on_tap_enter(self, tap, phenome):
        self._ensure()
        c = self.cur.get(tap.stack_id)
        if tap.top or c is None:
            c = {"entered": set(), "vals": {}, "t_in": {}, "bottom": None}
            self.cur[tap.stack_id] = c
        c["entered"].add(tap.pos)
        c["t_in"][tap.pos] = self.w.clock.now

    def on_invocation(self, otap, x, v, req):
        c = self.cur.get(otap.stack_id)
        if c is not None:
            c["bottom"] = v

    def on_tap_exit(self, tap, phenome, ret):
        w = self.w
        c = self.cur.get(tap.stack_id)
        if c is None:
            return
        c["vals"][tap.pos] = ret
        c.setdefault("t_out", {})[tap.pos] = w.clock.now
        if not tap.top:
            return
        # ---- a whole request has passed through the stack: advance and compare the models, top -> bottom
        w.probe("c16-requests-modelled")
        models = self.models[tap.stack_id]
        k = len(models)
        refused_at = None
        for i in range(k - 1, -1, -1):
            m = models[i]
            called = (i + 1) in c["entered"]
            if not called:
                break
            m.calls += 1
            fwd = i in c["entered"]
            out = c["vals"].get(i + 1)
            below = c["vals"].get(i)
            kind = m.kind
            if kind == "EvalCutoffProblem":
                n = m.layer._eval_cutoff
                want_fwd = m.forwarded < n
                if fwd != want_fwd:
                    self.violate("cutoff-forwarding", {"cutoff": n, "forwarded_before": m.forwarded, "forwarded_now": fwd})
                if fwd:
                    m.forwarded += 1
                    if not same_float(out, below):
                        self.violate("cutoff-not-transparent", {"out": repr(out), "below": repr(below)})
                else:
                    w.probe("c16-cutoff-refusals-modelled")
                    worst = -math.inf if self.maximize else math.inf
                    if not same_float(out, worst):
                        self.violate("cutoff-sentinel-wrong", {"out": repr(out), "maximize": self.maximize})
                    if refused_at is None:
                        refused_at = i
                if m.layer.n_evaluations != m.forwarded:
                    self.violate("cutoff-count", {"n_evaluations": m.layer.n_evaluations, "forwarded": m.forwarded})
            else:
                if not fwd:
                    self.violate("layer-did-not-forward/" + kind, {})
                    continue
                m.forwarded += 1
                if not same_float(out, below):
                    self.violate("layer-not-transparent/" + kind, {"out": repr(out), "below": repr(below)})
                if kind == "EvalCountingProblem":
                    if m.layer.n_evaluations != m.forwarded:
                        self.violate("counting-count", {"n_evaluations": m.layer.n_evaluations, "forwarded": m.forwarded})
                elif kind == "PrecisionCutoffProblem":
                    v = below
                    try:
                        within = abs(v - m.layer._global_optima) <= m.layer.precision
                    except Exception:
                        within = False
                    if within:
                        m.hits += 1
                        if m.hits > 1:
                            w.probe("c16-precision-repeated-hit")
                        if not m.hit:
                            m.hit = True
                            m.eta = m.forwarded
                            w.probe("c16-precision-hit-modelled")
                    if bool(m.layer.hit_precision) != m.hit:
                        self.violate("precision-hit-flag", {"flag": bool(m.layer.hit_precision), "model": m.hit})
                    if not same_float(m.layer.ETA, m.eta):
                        self.violate("precision-eta", {"ETA": repr(m.layer.ETA), "model": repr(m.eta)})
                    if m.layer.n_evaluations != m.forwarded:
                        self.violate("precision-count", {"n_evaluations": m.layer.n_evaluations, "forwarded": m.forwarded})
                elif kind == "StatsGatheringProblem":
                    w.probe("c16-stats-durations-checked")
                    want = c["t_out"].get(i, 0.0) - c["t_in"].get(i, 0.0)
                    ds = m.layer.durations
                    if m.layer.n_evaluations != m.forwarded or len(ds) != m.forwarded:
                        self.violate("stats-count", {"n_evaluations": m.layer.n_evaluations, "durations": len(ds),
                                                     "forwarded": m.forwarded})
                    elif not same_float(ds[-1], want) or ds[-1] < 0:
                        self.violate("stats-duration", {"recorded": ds[-1], "clock_difference": want})
                    elif ds[-1] == 0.0:
                        w.probe("c16-zero-duration")
        # transparency end-to-end
        top_val = c["vals"].get(k)
        if refused_at is None:
            if c["bottom"] is None:
                self.violate("objective-not-invoked-without-refusal", {})
            elif not same_float(top_val, c["bottom"]):
                self.violate("stack-not-transparent", {"top": repr(top_val), "bottom": repr(c["bottom"])})
        else:
            lowest_entered = min(c["entered"])
            if lowest_entered <= refused_at or c["bottom"] is not None:
                self.violate("objective-reached-below-refusing-cutoff", {"refused_at": refused_at})
        if isinstance(top_val, float) and len(self.recent) < 40:
            self.recent.append(top_val)
        self.cur.pop(tap.stack_id, None)

    def _attrs(self, tree):
        w = self.w
        self._ensure()
        w.probe("c16-transparency-attrs-checked")
        for si, st in enumerate(w.stacks):
            top = st["taps"][-1]
            fnp = st["fnp"]
            objs = list(st["layers"]) + [top]
            for o in objs:
                if o.bounds is not fnp.bounds and not (o.bounds == fnp.bounds).all():
                    self.violate("bounds-not-innermost", {"layer": type(o).__name__})
                if bool(o.maximize) != bool(fnp.maximize):
                    self.violate("direction-not-innermost", {"layer": type(o).__name__})
                vals = self.recent
                for a in vals[:12]:
                    for b in vals[-6:]:
                        if bool(o.worse_than(a, b)) != bool(fnp.worse_than(a, b)):
                            self.violate("worse-than-not-innermost", {"layer": type(o).__name__, "a": a, "b": b})
                            break
                # NaN on one side (the innermost problem ranks a NaN fitness as worst; NaN vs NaN is a coin flip and skipped)
                nan = float("nan")
                for b in vals[:6]:
                    for x, y in ((nan, b), (b, nan)):
                        if bool(o.worse_than(x, y)) != bool(fnp.worse_than(x, y)):
                            self.violate("worse-than-not-innermost/nan", {"layer": type(o).__name__, "a": repr(x), "b": repr(y)})
                            break
                if hasattr(o, "equivalent") and bool(o.equivalent(vals[0], vals[0])) != bool(fnp.equivalent(vals[0], vals[0])):
                    self.violate("equivalent-not-innermost", {"layer": type(o).__name__})
        for d in all_demes(tree):
            p = d._problem
            w.probe("c16-deme-wrapper-checked")
            st = w.stacks[w.level_stack[d._level]]
            if bool(p.maximize) != bool(st["fnp"].maximize) or not (p.bounds == st["fnp"].bounds).all():
                self.violate("deme-wrapper-attrs", {"deme": d.id})

    def on_consult(self, tree, site, deme, raw, verdict):
        w = self.w
        if not w.tree_ready:
            return
        if site == "boundary":
            self._attrs(tree)
        g = w.plan.get("gsc", {})
        if g.get("kind") == "precision" and self.models:
            for m in self.models[0]:
                if m.kind == "PrecisionCutoffProblem":
                    w.probe("c16-precision-gsc-checked")
                    if bool(raw) != m.hit:
                        self.violate("precision-gsc-verdict", {"raw": bool(raw), "model_hit": m.hit, "site": site})
                    break


MONITORS = [C16Monitor]


def nontrivial(w):
    return w.probes.get("c16-requests-modelled", 0) > 0 and w.steps_done > 0 and any(len(s["layers"]) >= 2 for s in w.stacks)
