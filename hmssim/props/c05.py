"""C05 - run() stops exactly at the global stop condition, with a bounded wind-down."""
from .. import plan as P
from ..sim import Monitor
from .common import all_demes, flat

PROP = "C05"
N_QUICK = 8000
N_THOROUGH = 200000
RULE = ("Plans: every shipped GSC (metaepoch limit, both evaluation limits with all weightings, precision reached, root "
        "stopped, all stopped, no active non-root demes, DontRun) with parameters placed so that the condition turns "
        "true after an arbitrary generation of an arbitrary deme, plus the external stop signal fault (sticky true "
        "verdict from a log-uniformly chosen consult index on); all engine mixes, generations 1-4, entry points "
        "tree/hms/minimize.")
NONTRIVIAL_RULE = "a first-true consult was observed and the wind-down after it was judged (or DontRun / metaepoch counter judged)"
EXPECTED_PROBES = ["c05-first-true-at-gen", "c05-first-true-at-presprout", "c05-first-true-at-boundary",
                   "c05-first-true-mid-metaepoch-not-last-deme", "c05-winddown-judged", "c05-active-demes-wound-down",
                   "c05-metaepoch-limit-exact", "c05-dontrun-judged", "c05-minimize-nit-judged", "c05-injected-first",
                   "c05-gsc-verdict-vs-definition"]
ASSUMPTIONS = ["an injected stop signal is sticky; a shipped GSC observed to flip back to false gets no wind-down verdict (counted as c05-flip)"]

PROFILE = P.profile(dims=[2, 2, 2, 3, 3, 4, 5, 8, 10], p_stop_signal=0.5, gens=[1, 2, 3, 4], entry_w={"tree": 8, "hms": 1, "minimize": 1},
                    gsc_w={"metaepoch_limit": 3, "singular_eval_limit": 3, "fitness_eval_limit": 3, "precision": 2,
                           "root_stopped": 2, "all_stopped": 2, "no_active_nonroot": 2, "dont_run": 0.5},
                    p_cutoff=0.15)


def gen(seed, tier):
    pl = P.gen_plan(seed, PROFILE, PROP)
    if "minimize" in pl and seed % 5 == 0:
        pl["minimize"]["maxfun"] = None
        pl["minimize"]["maxiter"] = 0  # a legal limit that is falsy: zero metaepochs
    if "levels" in pl and len(pl["levels"]) == 3 and seed % 11 == 0:
        # EA -> CMA -> local on a plateau landscape, stopped by NoActiveNonrootDemes: local searches that finish
        # without a single iteration
        import random as _r

        r2 = _r.Random(seed ^ 0x5C05)
        minr = min(h - l for l, h in pl["box"])
        pl["objective"] = {"kind": "stair", "center": [(l + h) / 2 for l, h in pl["box"]], "scale": minr / 6.0,
                           "offset": 0.0, "sign": pl["objective"].get("sign", 1.0)}
        pl["levels"][2] = {"engine": "local", "maxiter": None, "lsc": {"kind": "dont_stop"}}
        pl["levels"][1]["lsc"] = {"kind": "metaepoch_limit", "limit": r2.randint(1, 2)}
        pl["levels"][0]["lsc"] = {"kind": "metaepoch_limit", "limit": r2.randint(2, 4)}
        pl["gsc"] = {"kind": "no_active_nonroot", "n": r2.randint(0, 2)}
        pl["options"].pop("hibernation", None)
        for st in pl["stacks"]:
            st["layers"] = [x for x in st["layers"] if x["kind"] not in ("precision", "cutoff")]
    if pl.get("entry") == "tree" and seed % 4 == 1:
        pl["rerun_after_return"] = True
    g = pl.get("gsc")
    if g and g["kind"] == "fitness_eval_limit" and g.get("weights") in ("root", "equal") and seed % 2 == 1:
        g["weights_as_str"] = True  # the documented plain-string form of the weighting strategy
    if g and g["kind"] == "fitness_eval_limit" and seed % 2 == 0:
        import random

        r = random.Random(seed ^ 0xC05)
        g["weights"] = [r.choice([1.0, 0.25, 0.5, 0.75, 1.5, 0.1]) for _ in pl["levels"]]
    return pl


class C05Monitor(Monitor):
    prop = PROP

    def __init__(self, w):
        super().__init__(w)
        self.t = None
        self.flip = False
        self.after = {}  # id(deme) -> gen consults after t
        self.step_consults = {}  # id(deme) -> gen consults in the current step
        self._req_seen = 0
        self._req_by = {}
        self.t_def = None
        self._prec_seen = 0
        self._prec_hit = False
        self._prec_unknown = False
        self.last_ran = {}  # id(deme) -> last step in which it requested evaluations during the metaepoch phase
        self.keep = []

    def _gen_size(self, deme):
        """Upper bound of objective requests one engine iteration of this deme can make (None: unbounded)."""
        cls = type(deme).__name__
        if cls == "LocalDeme":
            return None
        if cls == "CMADeme":
            return int(deme._cma_es.popsize)
        ps = getattr(deme, "_pop_size", None)
        return int(ps) if ps is not None else None

    def _definition_moment(self, tree):
        """First event at which the shipped GSC holds by its definition (whether or not anybody consulted it)."""
        w = self.w
        if self.t_def is not None or not w.tree_ready or w.plan.get("entry") == "phases":
            return
        g = (w.plan.get("gsc") or {}).get("kind")
        if g in (None, "dont_run", "precision"):
            return
        try:
            ref = self._reference_gsc(tree)
        except Exception:
            return
        if ref:
            self.t_def = {"n_req": len(w.requests), "step": w.step,
                          "active": {id(d): d for d in all_demes(tree) if d._active}}
            w.probe("c05-definition-moment-seen")

    def on_request(self, req):
        w = self.w
        if self.t_def is None and w.tree is not None and w.phase in ("metaepoch",):
            self._definition_moment(w.tree)
        if w.phase == "metaepoch" and req.deme >= 0:
            d = w.deme_list[req.deme].obj
            if id(d) not in self.last_ran:
                self.keep.append(d)
            self.last_ran[id(d)] = w.step

    def _ran(self, deme):
        if id(deme) not in self.last_ran:
            self.keep.append(deme)
        self.last_ran[id(deme)] = self.w.step

    def on_lsc(self, deme, raw, verdict):
        if self.w.phase == "metaepoch":
            self._ran(deme)

    def on_step_begin(self, tree):
        self.step_consults = {}
        if self.t is not None and not self.flip:
            self.violate("step-after-stop", {"t_site": self.t["site"], "t_step": self.t["step"], "step": self.w.step})

    def on_sprout_begin(self, tree):
        if self.t is not None and not self.flip:
            self.violate("sprout-after-stop", {"t_site": self.t["site"], "t_step": self.t["step"]})

    def _evals_of(self, deme):
        """Evaluations of a deme as the simulator saw them (requests attributed to it), not as pyhms booked them."""
        w = self.w
        for r in w.requests[self._req_seen:]:
            self._req_by[r.deme] = self._req_by.get(r.deme, 0) + 1
        self._req_seen = len(w.requests)
        return self._req_by.get(w.deme_ord(deme), 0)

    def _reference_gsc(self, tree):
        """The shipped GSC's verdict recomputed from its definition and the public state (None = not modelled)."""
        w = self.w
        g = w.plan.get("gsc")
        if g is None and w.plan.get("entry") == "minimize":
            m = w.plan["minimize"]
            g = {"kind": "singular_eval_limit", "limit": m["maxfun"]} if m.get("maxfun") else (
                {"kind": "metaepoch_limit", "limit": m["maxiter"]} if m.get("maxiter") is not None else
                {"kind": "singular_eval_limit", "limit": 10000})
        k = g["kind"]
        demes = all_demes(tree)
        if k == "metaepoch_limit":
            return tree.metaepoch_count >= g["limit"]
        if k == "singular_eval_limit":
            return sum(self._evals_of(d) for d in demes) >= g["limit"]
        if k == "fitness_eval_limit":
            wts = g.get("weights", "equal")
            n = len(tree.levels)
            if wts in ("equal", "default", None):
                wts = [1] * n
            elif wts == "root":
                wts = [1] + [0] * (n - 1)
            tot = 0
            for d in demes:
                tot += wts[d._level] * self._evals_of(d)
            return tot >= g["limit"]
        if k == "precision":
            # from the simulator's own record of the values the objective returned on that stack, not from the
            # wrapper's flag: "some evaluated point came within eps of the optimum value"
            si = int(g.get("stack", 0))
            spec = next((l for l in w.plan["stacks"][si]["layers"] if l["kind"] == "precision"), None)
            if spec is None or w.plan.get("stack_objectives") or any(
                    l["kind"] == "mirror" for l in w.plan["stacks"][si]["layers"]):
                for layer in w.stacks[si]["layers"]:
                    if type(layer).__name__ == "PrecisionCutoffProblem":
                        return bool(layer.hit_precision)
                return None
            opt, eps = float(spec["opt"]), float(spec["eps"])
            ls = w.plan["level_stack"]
            reqs = w.requests
            i = self._prec_seen
            while i < len(reqs) and not self._prec_hit:
                r = reqs[i]
                if r.value is None:
                    break
                if r.level is not None and 0 <= r.level < len(ls) and ls[r.level] == si and r.invoked:
                    if abs(float(r.value) - opt) <= eps:
                        self._prec_hit = True
                elif r.level is None or r.level < 0:
                    self._prec_unknown = True
                i += 1
            self._prec_seen = i
            if self._prec_unknown and not self._prec_hit:
                return None
            w.probe("c05-precision-reference-from-record")
            return self._prec_hit
        if k == "root_stopped":
            return not tree.root._active
        if k == "all_stopped":
            return not any(d._active for d in demes)
        if k == "no_active_nonroot":
            # "no active non-root deme for n metaepochs": idle time counted from the last metaepoch in which the
            # deme really ran (observed by the simulator: during the metaepoch phase it requested an evaluation,
            # consulted the GSC after a generation or consulted its LSC - a generation may need no evaluation).
            # With hibernation demes skip metaepochs and pyhms' own bookkeeping (started_at + metaepoch_count) is
            # the only definition there is, so it is used then.
            hib = bool(w.plan.get("options", {}).get("hibernation"))
            step = tree.metaepoch_count
            for li in range(1, len(tree.levels)):
                if len(tree.levels[li]) == 0:
                    return False
                for d in tree.levels[li]:
                    if d._active:
                        return False
                    last = d._started_at + (len(d._history) - 1)
                    if not hib:
                        last = max(self.last_ran.get(id(d), d._started_at), d._started_at)
                    if step <= last + g["n"]:
                        return False
            return True
        if k == "dont_run":
            return True
        return None

    def on_consult(self, tree, site, deme, raw, verdict):
        w = self.w
        if not w.tree_ready:
            return
        if site == "gen" and deme is not None and w.phase == "metaepoch":
            self._ran(deme)
        ref = self._reference_gsc(tree)
        if ref and self.t_def is None and (w.plan.get("gsc") or {}).get("kind") not in (None, "dont_run", "precision") \
                and w.plan.get("entry") != "phases":
            self.t_def = {"n_req": len(w.requests), "step": w.step,
                          "active": {id(d): d for d in all_demes(tree) if d._active}}
        if ref is not None:
            w.probe("c05-gsc-verdict-vs-definition")
            if bool(ref) != bool(raw):
                self.violate("gsc-verdict-differs-from-definition/" + str((w.plan.get("gsc") or {}).get("kind", "minimize")),
                             {"returned": bool(raw), "definition": bool(ref), "site": site})
        if site == "gen" and deme is not None:
            self.step_consults[id(deme)] = self.step_consults.get(id(deme), 0) + 1
            if w.phase == "metaepoch":
                self._ran(deme)
        if self.t is None:
            if verdict:
                demes = {}
                for d in all_demes(tree):
                    demes[id(d)] = {"obj": d, "active": bool(d._active), "G": len(flat(d)), "H": len(d._history),
                                    "inflight": self.step_consults.get(id(d), 0) if (d is deme) else 0,
                                    "hib": bool(d._hibernating)}
                self.t = {"seq": w.seq, "site": site, "step": w.step, "deme": deme, "demes": demes,
                          "injected": not raw, "n_req": len(w.requests), "phase": w.phase}
                w.probe("c05-first-true-at-" + site)
                if not raw:
                    w.probe("c05-injected-first")
                if site == "gen":
                    act = [d for _, d in tree.active_demes]
                    # schedule is reversed(active_demes); "not last" = some active deme still has to run this step
                    if act and deme is not act[0]:
                        w.probe("c05-first-true-mid-metaepoch-not-last-deme")
        else:
            if not verdict:
                self.flip = True
                w.probe("c05-flip")
            if site == "gen" and deme is not None:
                self.after[id(deme)] = self.after.get(id(deme), 0) + 1

    def on_end(self, tree, outcome):
        w = self.w
        if tree is None:
            return
        if outcome == "returned":
            # metaepoch counter == number of metaepochs performed
            if tree.metaepoch_count != w.steps_done:
                self.violate("metaepoch-count-vs-steps", {"metaepoch_count": tree.metaepoch_count, "steps": w.steps_done})
            last = w.consults[-1] if w.consults else None
            if last is None or last[1] != "boundary" or not last[4]:
                self.violate("returned-without-true-boundary", {"last_consult": None if last is None else list(last[1:5])})
            g = w.plan.get("gsc", {})
            if w.plan.get("entry") == "minimize":
                w.probe("c05-minimize-nit-judged")
                if w.result.nit != w.steps_done:
                    self.violate("minimize-nit", {"nit": int(w.result.nit), "steps": w.steps_done})
                m = w.plan["minimize"]
                if m.get("maxfun") is None and m.get("maxiter") is not None and w.result.nit != m["maxiter"]:
                    self.violate("minimize-maxiter-not-exact", {"nit": int(w.result.nit), "maxiter": m["maxiter"]})
            if g.get("kind") == "metaepoch_limit" and self.t is not None and not self.t["injected"]:
                w.probe("c05-metaepoch-limit-exact")
                if tree.metaepoch_count != g["limit"]:
                    self.violate("metaepoch-limit-not-exact", {"limit": g["limit"], "count": tree.metaepoch_count})
            if g.get("kind") == "dont_run":
                w.probe("c05-dontrun-judged")
                if tree.metaepoch_count != 0 or w.steps_done != 0:
                    self.violate("dontrun-ran", {"count": tree.metaepoch_count})
                if any(r.step != 0 or w.deme_list[r.deme].obj is not tree.root for r in w.requests if r.deme >= 0):
                    self.violate("dontrun-evaluated", {})
        # wind-down measured from the moment the condition held by its definition: every deme may still finish /
        # perform ONE engine iteration, i.e. request at most one generation's worth of evaluations
        if self.t_def is not None and not self.flip and self.w.stop_at is None and (
                outcome == "returned" or str(outcome).startswith("capped")):
            after = {}
            for r in w.requests[self.t_def["n_req"]:]:
                after[r.deme] = after.get(r.deme, 0) + 1
            for k, d in self.t_def["active"].items():
                n = after.get(w.deme_ord(d), 0)
                bound = self._gen_size(d)
                if bound is None:
                    continue
                w.probe("c05-request-bound-judged")
                if n > bound:
                    self.violate("more-than-one-generation-of-evaluations-after-condition-held/" + type(d).__name__,
                                 {"deme": d.id, "requests_after": n, "one_generation": bound,
                                  "gsc": (w.plan.get("gsc") or {}).get("kind")})
        if self.t is None or self.flip:
            return
        if not (outcome == "returned" or str(outcome).startswith("capped")):
            return
        t = self.t
        w.probe("c05-winddown-judged")
        now = all_demes(tree)
        for d in now:
            if id(d) not in t["demes"]:
                self.violate("deme-created-after-stop", {"deme": d.id, "t_site": t["site"]})
        reqs_after = {}
        for r in w.requests[t["n_req"]:]:
            reqs_after[r.deme] = reqs_after.get(r.deme, 0) + 1
        for k, rec in t["demes"].items():
            d = rec["obj"]
            o = w.deme_ord(d)
            cls = type(d).__name__
            G_end = len(flat(d))
            n_after = self.after.get(k, 0)
            gained = G_end - rec["G"] - rec["inflight"]
            if not rec["active"]:
                if reqs_after.get(o, 0) or G_end != rec["G"]:
                    self.violate("inactive-deme-worked-after-stop/" + cls, {"deme": d.id, "requests": reqs_after.get(o, 0),
                                                                            "generations_gained": G_end - rec["G"]})
                continue
            w.probe("c05-active-demes-wound-down")
            if n_after > 1:
                self.violate("more-than-one-consult-after-stop/" + cls, {"deme": d.id, "consults_after": n_after,
                                                                         "t_site": t["site"]})
            if gained > 1:
                self.violate("more-than-one-generation-after-stop/" + cls,
                             {"deme": d.id, "generations_gained": gained, "t_site": t["site"],
                              "was_consulter": d is t["deme"]})
            if len(d._history) - rec["H"] > 1:
                self.violate("more-than-one-metaepoch-after-stop/" + cls, {"deme": d.id})


MONITORS = [C05Monitor]


def nontrivial(w):
    return (w.probes.get("c05-winddown-judged", 0) > 0 or w.probes.get("c05-dontrun-judged", 0) > 0) and w.outcome == "returned"
