"""Helpers shared by the property monitors (independent of pyhms' own comparison code)."""
import math
import struct

import numpy as np

POP_ENGINES = ("EADeme", "DEDeme", "SHADEDeme", "LHSDeme", "SobolDeme", "CustomDeme")


def strictly_better(a, b, maximize):
    """a strictly better than b in the problem's direction (plain float comparison; NaN is never better)."""
    if a != a or b != b:
        return False
    return a > b if maximize else a < b


def not_worse(a, b, maximize):
    if a != a or b != b:
        return False
    return a >= b if maximize else a <= b


def flat(deme):
    """Flattened list of generations straight from the raw nested history."""
    return [gen for me in deme._history for gen in me]


def gb(genome):
    return np.ascontiguousarray(genome, dtype=np.float64).tobytes()


def fb(v):
    try:
        return struct.pack("<d", float(v))
    except (TypeError, ValueError):
        return repr(v).encode()


def same_float(a, b):
    """bitwise-equal floats (NaN equals NaN, -0.0 differs from 0.0 only in sign: treated equal)."""
    try:
        a = float(a)
        b = float(b)
    except (TypeError, ValueError):
        return False
    if a != a and b != b:
        return True
    return a == b


def sentinel(maximize):
    return -math.inf if maximize else math.inf


def engine_name(w, level):
    l = w.plan["levels"][level]
    return l["engine"] + (":" + l["ea"] if l["engine"] == "ea" else "")


def deme_cls(w, ord_):
    if ord_ < 0 or ord_ >= len(w.deme_list):
        return "?"
    return type(w.deme_list[ord_].obj).__name__


def all_demes(tree):
    return [d for lv in tree.levels for d in lv]


def terraced_scenario(pl, r):
    """Three levels on a plateau landscape: several middle-level demes propose candidates of exactly equal fitness
    in a round in which the level limit cuts."""
    if "levels" not in pl:
        return pl
    minr = min(h - l for l, h in pl["box"])

    def sea(pop, gens):
        return {"engine": "ea", "ea": "SEA", "pop_size": pop, "generations": gens, "mutation_std": 0.1 * minr,
                "p_mutation": 1.0, "k_elites": 1, "sample_std_dev": 0.05 * minr, "lsc": {"kind": "dont_stop"}}

    pl["levels"] = [sea(r.choice([10, 16, 24]), 1), sea(r.choice([6, 10]), r.choice([1, 2])), sea(6, 1)]
    pl["levels"][2]["lsc"] = {"kind": "metaepoch_limit", "limit": r.choice([1, 2, 3])}
    pl["level_stack"] = [0, 0, 0]
    pl["stacks"] = pl["stacks"][:1]
    pl["stacks"][0]["layers"] = [x for x in pl["stacks"][0]["layers"] if x["kind"] != "cutoff"]
    cen = [(l + h) / 2 for l, h in pl["box"]]
    pl["objective"] = {"kind": "stair", "center": cen, "scale": minr / r.choice([3.0, 4.0, 6.0]), "offset": 0.0,
                       "sign": -1.0 if pl["maximize"] else 1.0}
    for st in pl["stacks"]:
        st.pop("maximize", None)
    pl.pop("stack_objectives", None)
    if r.random() < 0.5:
        pl["sprout"] = {"factory": "simple", "far_enough": 0.02 * minr, "level_limit": r.choice([2, 3, 4])}
    else:
        pl["sprout"] = {"generator": {"kind": "best"}, "deme_filters": [{"kind": "far_enough", "min_distance": 0.02 * minr}],
                        "tree_filters": [{"kind": "level_limit", "limit": r.choice([2, 3, 4])}]}
    pl["gsc"] = {"kind": "metaepoch_limit", "limit": r.choice([10, 16, 24])}
    pl["caps"]["metaepochs"] = 40
    pl["options"].pop("hibernation", None)
    pl["faults"] = {k: v for k, v in pl.get("faults", {}).items() if k not in ("stop_at_consult",)}
    if pl.get("entry") in ("hms", "minimize"):
        pl["entry"] = "tree"
    return pl
