"""Helpers shared by the property monitors (independent of pyhms' own comparison code)."""
import math
import struct

import numpy as np

POP_ENGINES = ("EADeme", "DEDeme", "SHADEDeme", "LHSDeme", "SobolDeme", "CustomDeme")


def strictly_better(a, b, maximize):
    """a strictly better than b in the problem's direction (plain float comparison; NaN is never better)."""
    if a != a or b != b:
        return False
    return a > b if maximize else a < b


def not_worse(a, b, maximize):
    if a != a or b != b:
        return False
    return a >= b if maximize else a <= b


def flat(deme):
    """Flattened list of generations straight from the raw nested history."""
    return [gen for me in deme._history for gen in me]


def gb(genome):
    return np.ascontiguousarray(genome, dtype=np.float64).tobytes()


def fb(v):
    try:
        return struct.pack("<d", float(v))
    except (TypeError, ValueError):
        return repr(v).encode()


def same_float(a, b):
    """bitwise-equal floats (NaN equals NaN, -0.0 differs from 0.0 only in sign: treated equal)."""
    try:
        a = float(a)
        b = float(b)
    except (TypeError, ValueError):
        return False
    if a != a and b != b:
        return True
    return a == b


def sentinel(maximize):
    return -math.inf if maximize else math.inf


def engine_name(w, level):
    l = w.plan["levels"][level]
    return l["engine"] + (":" + l["ea"] if l["engine"] == "ea" else "")


def deme_cls(w, ord_):
    if ord_ < 0 or ord_ >= len(w.deme_list):
        return "?"
    return type(w.deme_list[ord_].obj).__name__


def all_demes(tree):
    return [d for lv in tree.levels for d in lv]
