"""C13 - maximising f behaves exactly like minimising -f."""
import copy
import random as _random
import sys

import numpy as np

from .. import objectives
from .. import plan as P
from ..sim import Monitor, tree_struct
from .common import all_demes, flat, gb

PROP = "C13"
N_QUICK = 6000
N_THOROUGH = 150000
RULE = ("(a) Whole-run twins: plans whose engines are index-stable (DE +-dither, SHADE, CMA-ES, L-BFGS-B local deme, "
        "LHS, Sobol, custom random search) and whose LSCs do not read raw fitness are executed as (f, maximize) and as "
        "the mirror (-f, minimize) with the same seeds and faults (budget sentinels mirror too); the trees must be "
        "identical genome by genome with negated fitness (ids, start metaepochs, activity, evaluation counts, sprout "
        "seeds, r5s_solutions). (b) Shadow twins in situ for the SEA family and the filters: at every engine step, "
        "DemeLimit / LevelLimit call and (for trees with > 5 leaves) R5S selection, the same component is re-run on a "
        "mirrored copy of its input under the saved RNG state; the selected sets must coincide, a mismatch confined to "
        "individuals tied at the cut is not a violation.")
NONTRIVIAL_RULE = "a whole-run twin pair compared after >= 1 sprout, or >= 1 shadow twin of an engine step / filter / R5S call compared"
EXPECTED_PROBES = ["c13-twin-runs-compared", "c13-twin-with-cma", "c13-twin-with-local", "c13-twin-with-de-shade",
                   "c13-twin-with-sprouts", "c13-shadow-engine-steps", "c13-shadow-demelimit", "c13-shadow-levellimit",
                   "c13-shadow-r5s", "c13-twin-budget-sentinels", "c13-twin-mirror-by-wrapper-compared"]
ASSUMPTIONS = ["MWEA's utility and FitnessSteadiness are direction-specific by the property's own text and are excluded",
               "NBC's direction symmetry is decided by C15's mirrored metamorphic re-run"]
WALL_S = 90.0

TWIN_PROFILE = P.profile(p_seeded=1.0, p_maximize=1.0,
                         root_engines={"ea": 0, "de": 4, "shade": 3, "lhs": 1.5, "sobol": 1.5, "custom": 1},
                         mid_engines={"ea": 0, "de": 3, "shade": 3, "cma": 1, "custom": 0.5},
                         leaf_engines={"ea": 0, "de": 2, "shade": 2, "cma": 5, "local": 4, "lhs": 0.3, "sobol": 0.3,
                                       "custom": 0.3},
                         lsc_w={"dont_stop": 4, "metaepoch_limit": 4, "fitness_steadiness": 0, "all_children_stopped": 1.5,
                                "dont_run": 0.5, "eval_budget": 1.5},
                         entry_w={"tree": 9, "hms": 1, "minimize": 0}, p_cutoff=0.25, metaepochs=[2, 9])

SHADOW_PROFILE = P.profile(p_maximize=0.6, p_no_elite=0.15,
                           root_engines={"ea": 8, "de": 1, "shade": 1, "lhs": 1, "sobol": 0.5, "custom": 0.3},
                           leaf_engines={"ea": 5, "cma": 2, "local": 1, "de": 1},
                           ea_variants={"SEA": 4, "SEAWithCrossover": 3, "GAStyleSEA": 3, "SEAWithAdaptiveMutation": 2,
                                        "MWEA": 0},
                           levels_w={1: 1, 2: 6, 3: 3}, level_limit=[1, 3],
                           sprout_w={"nbc_factory": 2, "simple_factory": 1, "composed": 7},
                           entry_w={"tree": 9, "hms": 1, "minimize": 0}, metaepochs=[2, 9], p_cutoff=0.15)

R5S_PROFILE = P.profile(p_maximize=0.7, levels_w={1: 0, 2: 1, 3: 0}, level_limit=[6, 10], metaepochs=[8, 16],
                        root_engines={"ea": 3, "de": 2, "lhs": 3, "sobol": 2},
                        leaf_engines={"cma": 3, "local": 3, "de": 1, "ea": 1},
                        sprout_w={"nbc_factory": 1, "simple_factory": 3, "composed": 0},
                        lsc_w={"dont_stop": 1, "metaepoch_limit": 6, "dont_run": 2, "eval_budget": 1,
                               "fitness_steadiness": 0, "all_children_stopped": 0},
                        gsc_w={"metaepoch_limit": 1, "singular_eval_limit": 0, "fitness_eval_limit": 0, "precision": 0,
                               "root_stopped": 0, "all_stopped": 0, "no_active_nonroot": 0, "dont_run": 0},
                        entry_w={"tree": 1, "hms": 0, "minimize": 0}, p_cutoff=0.0, p_stop_signal=0.0,
                        objective_kinds=["rastrigin", "funnel", "sphere", "stair"], pop=[8, 20])


def gen(seed, tier):
    k = seed % 10
    if k < 5:
        prof = TWIN_PROFILE
        if (seed // 10) % 3 == 0:
            # plateau objectives (exact fitness ties) with SHADE / DE: tie handling must mirror too
            prof = P.profile(**{**TWIN_PROFILE, "objective_kinds": ["stair", "stair", "abszero", "discont"],
                                "root_engines": {"ea": 0, "de": 3, "shade": 5, "lhs": 1, "sobol": 1, "custom": 0.5},
                                "leaf_engines": {"ea": 0, "de": 3, "shade": 4, "cma": 2, "local": 2}})
        pl = P.gen_plan(seed, prof, PROP)
        pl["c13_mode"] = "twin"
        pl["maximize"] = True
        if pl["options"].get("random_seed") is None:
            pl["options"]["random_seed"] = seed % 100003
    elif k < 9:
        pl = P.gen_plan(seed, SHADOW_PROFILE, PROP)
        pl["c13_mode"] = "shadow"
    else:
        pl = P.gen_plan(seed, R5S_PROFILE, PROP)
        pl["c13_mode"] = "shadow"
        if "factory" in pl["sprout"]:
            minr = min(h - l for l, h in pl["box"])
            pl["sprout"]["far_enough"] = minr * 0.02
        pl["levels"][0]["lsc"] = {"kind": "dont_stop"}
    return pl


def mirror_plan(plan):
    m = copy.deepcopy(plan)
    m["maximize"] = not plan["maximize"]
    m["objective"]["sign"] = -plan["objective"].get("sign", 1.0)
    for st in m["stacks"]:
        for l in st["layers"]:
            if l["kind"] == "precision":
                l["opt"] = -l["opt"]
    return m


def mirror_by_wrapper_plan(plan):
    """The mirrored formulation written the other natural way: the SAME (f, maximize) problem inside a user-defined
    wrapper that turns it round (minimise Mirrored(p)), instead of a fresh FunctionProblem for -f."""
    m = copy.deepcopy(plan)
    for st in m["stacks"]:
        for l in st["layers"]:
            if l["kind"] == "precision":
                l["opt"] = -l["opt"]
        st["layers"].insert(0, {"kind": "mirror"})
    return m


def struct_mirror_equal(s1, s2):
    """s1 from (f, max), s2 from (-f, min): equal with fitness negated.  Returns None or a description."""
    import struct as _st

    def neg(fb):
        return _st.pack("<d", -_st.unpack("<d", fb)[0])

    def feq(a, b):
        return _st.unpack("<d", a)[0] == -_st.unpack("<d", b)[0]

    if s1["metaepoch_count"] != s2["metaepoch_count"]:
        return {"metaepoch_count": [s1["metaepoch_count"], s2["metaepoch_count"]]}
    for li, (a, b) in enumerate(zip(s1["levels"], s2["levels"])):
        if len(a) != len(b):
            return {"level": li, "demes": [len(a), len(b)]}
        for da, db in zip(a, b):
            names = ["id", "class", "level", "started_at", "active", "hibernating", "n_evaluations"]
            for n, x, y in zip(names, da[:7], db[:7]):
                if x != y:
                    return {"level": li, "deme": da[0], "class": da[1], "field": n, "values": [x, y]}
            sa, sb = da[7], db[7]
            if (sa is None) != (sb is None) or (sa is not None and (sa[0] != sb[0] or not feq(sa[1], sb[1]))):
                return {"level": li, "deme": da[0], "class": da[1], "field": "seed"}
            ha, hb = da[8], db[8]
            if len(ha) != len(hb):
                return {"level": li, "deme": da[0], "class": da[1], "field": "metaepochs", "values": [len(ha), len(hb)]}
            for mi, (ma, mb) in enumerate(zip(ha, hb)):
                if len(ma) != len(mb):
                    return {"level": li, "deme": da[0], "class": da[1], "field": "generations", "metaepoch": mi}
                for gi, (ga, gb_) in enumerate(zip(ma, mb)):
                    if len(ga) != len(gb_):
                        return {"level": li, "deme": da[0], "class": da[1], "field": "generation-size", "metaepoch": mi}
                    for (xa, fa), (xb, fb_) in zip(ga, gb_):
                        if xa != xb:
                            return {"level": li, "deme": da[0], "class": da[1], "field": "genome", "metaepoch": mi,
                                    "generation": gi}
                        if not feq(fa, fb_):
                            return {"level": li, "deme": da[0], "class": da[1], "field": "fitness", "metaepoch": mi}
            if da[9] != db[9]:
                return {"level": li, "deme": da[0], "class": da[1], "field": "children"}
    return None


# ---------------------------------------------------------------------------------------------
class C13Shadow(Monitor):
    prop = PROP

    def __init__(self, w):
        super().__init__(w)
        self.maximize = bool(w.plan["maximize"])
        self.pure = objectives.make_pure(w.plan["objective"])
        self.rng_before = None
        self._mirror_problem = None

    def mirror_problem(self, bounds):
        from pyhms.core.problem import FunctionProblem

        pure = self.pure
        return FunctionProblem(lambda x: -pure(x), bounds=bounds, maximize=not self.maximize)

    def mirror_inds(self, inds, prob):
        from pyhms.core.individual import Individual

        return [Individual(np.array(i.genome, dtype=float, copy=True), prob, fitness=-float(i.fitness)) for i in inds]

    # --- SEA family engine steps
    def on_engine_enter(self, proxy, parents, kwargs):
        self.rng_before = (np.random.get_state(), _random.getstate())
        self.req_before = len(self.w.requests)

    def on_engine_run(self, proxy, parents, kwargs, offspring):
        w = self.w
        eng = proxy.inner
        if type(eng).__name__ == "MWEA" or self.rng_before is None:
            return
        if any(abs(float(i.fitness)) == float("inf") or i.fitness != i.fitness for i in parents):
            return  # sentinels in the population: the mirrored shadow problem has no budget wrapper
        if any(abs(float(i.fitness)) == float("inf") for i in offspring):
            return
        if any(not r.invoked for r in w.requests[self.req_before:]):
            return  # an evaluation of this step was refused by a budget wrapper (the refused offspring may have been dropped)
        now = (np.random.get_state(), _random.getstate())
        prob = self.mirror_problem(parents[0].problem.bounds)
        try:
            np.random.set_state(self.rng_before[0])
            _random.setstate(self.rng_before[1])
            m_off = eng.run(self.mirror_inds(parents, prob), **kwargs)
        finally:
            np.random.set_state(now[0])
            _random.setstate(now[1])
        w.probe("c13-shadow-engine-steps")
        a = sorted((gb(i.genome), float(i.fitness)) for i in offspring)
        b = sorted((gb(i.genome), -float(i.fitness)) for i in m_off)
        if a != b:
            # tolerate a mismatch confined to individuals tied at the cut
            # (ties among the best parents change which of them is the elite, ties at the cut which one is kept:
            #  the two results then differ only by swapping individuals of equal fitness)
            sa, sb = set(a), set(b)
            only = (sa - sb) | (sb - sa)
            if sorted(f for _, f in a) == sorted(f for _, f in b):
                w.probe("c13-shadow-tie-at-cut")
                return
            self.violate("engine-step-differs/" + type(eng).__name__,
                         {"n": len(a), "only_in_one": len(only), "maximize": self.maximize})

    # --- filters
    def on_filter_enter(self, tree, ftap, before):
        pass

    def on_filtered(self, tree, ftap, before, res):
        w = self.w
        f = ftap.inner
        name = type(f).__name__
        if name not in ("DemeLimit", "LevelLimit"):
            return
        from pyhms.sprout.sprout_candidates import DemeCandidates, DemeFeatures
        from pyhms.sprout.sprout_filters import DemeLimit, LevelLimit

        if not before:
            return
        anyd = next(iter(before))
        prob = self.mirror_problem(anyd._problem.bounds)
        mcand = {}
        index = {}
        for d, (inds, md) in before.items():
            mi = self.mirror_inds(inds, prob)
            for k, x in enumerate(mi):
                index[id(x)] = (id(d), k)
            mcand[d] = DemeCandidates(individuals=mi, features=DemeFeatures(nbc_mean_distance=md))
        shadow = DemeLimit(f.limit) if name == "DemeLimit" else LevelLimit(f.limit)
        try:
            out = shadow(mcand, tree)
        except Exception as e:
            self.violate("shadow-filter-raised/" + name, {"error": repr(e)[:200]})
            return
        w.probe("c13-shadow-demelimit" if name == "DemeLimit" else "c13-shadow-levellimit")
        got = set()
        for d, c in out.items():
            for x in c.individuals:
                got.add(index[id(x)])
        real = set()
        for d, c in res.items():
            src = before[d][0]
            for x in c.individuals:
                for k, y in enumerate(src):
                    if y is x:
                        real.add((id(d), k))
                        break
        if got != real:
            only = (got - real) | (real - got)
            def fitsof(sel):
                out = []
                for did, k in sel:
                    for d, (inds, _) in before.items():
                        if id(d) == did:
                            out.append(float(inds[k].fitness))
                return sorted(out)

            if fitsof(got) == fitsof(real):
                w.probe("c13-shadow-tie-at-cut")
                return
            self.violate("filter-selection-differs/" + name, {"real": len(real), "mirror": len(got),
                                                              "maximize": self.maximize})

    # --- R5S
    def on_boundary(self, tree):
        w = self.w
        if len(tree.levels) < 2:
            return
        bests = [d.best_individual for d in tree.leaves if d.best_individual]
        if len(bests) <= 5:
            return
        if any(abs(float(i.fitness)) == float("inf") for i in bests):
            return
        from pyhms.utils.r5s import R5SSelection

        real = R5SSelection()(list(bests))
        prob = self.mirror_problem(bests[0].problem.bounds)
        mi = self.mirror_inds(bests, prob)
        # the mirrored individuals must unwrap to a FunctionProblem as the real ones do
        mir = R5SSelection()(list(mi))
        w.probe("c13-shadow-r5s")
        a = {next(k for k, x in enumerate(bests) if x is r) for r in real}
        b = {next(k for k, x in enumerate(mi) if x is r) for r in mir}
        if a != b:
            fits = [float(i.fitness) for i in bests]
            if len(set(fits)) < len(fits):
                w.probe("c13-shadow-tie-at-cut")
                return
            self.violate("r5s-selection-differs", {"n": len(bests), "real": sorted(a), "mirror": sorted(b),
                                                   "maximize": self.maximize})


MONITORS = [C13Shadow]


def nontrivial(w):
    p = w.probes
    return (p.get("c13-twin-runs-compared", 0) > 0 and p.get("c13-twin-with-sprouts", 0) > 0) or (
        p.get("c13-shadow-engine-steps", 0) + p.get("c13-shadow-demelimit", 0) + p.get("c13-shadow-levellimit", 0)
        + p.get("c13-shadow-r5s", 0)) > 0


def run(plan):
    from .. import build, runner

    mod = sys.modules[__name__]
    if plan.get("c13_mode") != "twin":
        w = build.execute(plan, MONITORS)
        try:
            return runner.summarize_world(w, mod, plan)
        finally:
            w.dispose()
    w = build.execute(plan, ())
    try:
        if w.outcome == "returned" or str(w.outcome).startswith("capped"):
            w2 = build.execute(mirror_plan(plan), ())
            try:
                w.probe("c13-twin-runs-compared")
                t1, t2 = w.final_tree, w2.final_tree
                if t1 is not None and t2 is not None:
                    names = {type(d).__name__ for d in all_demes(t1)}
                    if "CMADeme" in names:
                        w.probe("c13-twin-with-cma")
                    if "LocalDeme" in names:
                        w.probe("c13-twin-with-local")
                    if names & {"DEDeme", "SHADEDeme"}:
                        w.probe("c13-twin-with-de-shade")
                    if len(all_demes(t1)) > 1:
                        w.probe("c13-twin-with-sprouts")
                    if any(st["refused_genomes"] for st in w.stacks):
                        w.probe("c13-twin-budget-sentinels")
                    d = struct_mirror_equal(tree_struct(t1), tree_struct(t2))
                    if w.outcome != w2.outcome:
                        d = d or {"outcomes": [w.outcome, w2.outcome]}
                    if d is None and w.n_requests != w2.n_requests:
                        d = {"requests": [w.n_requests, w2.n_requests]}
                    if d is None and t1.leaves and len(t1.levels) > 1:
                        try:
                            r1 = [gb(i.genome) for i in t1.r5s_solutions]
                            r2 = [gb(i.genome) for i in t2.r5s_solutions]
                            if sorted(r1) != sorted(r2):
                                d = {"field": "r5s_solutions", "class": "R5S"}
                        except Exception:
                            pass
                    if d is None and len(t1.levels) == 2 and t1.leaves and plan["seed"] % 6 in (2, 4) \
                            and all(type(x).__name__ == "CMADeme" for x in t1.leaves):
                        # the hill-valley based redundancy analysis of the two (identical) runs must agree as well
                        try:
                            w.in_monitor = w2.in_monitor = True
                            rf1, rf2 = t1.get_redundancy_factor(), t2.get_redundancy_factor()
                            w.probe("c13-twin-redundancy-factor-compared")
                            if rf1 != rf2:
                                d = {"field": "redundancy_factor", "class": "HillValley", "values": [rf1, rf2]}
                        except Exception:
                            w.probe("c13-twin-redundancy-factor-raised")
                        finally:
                            w.in_monitor = w2.in_monitor = False
                    if d is not None:
                        w.violate(PROP, "twin-differs/" + str(d.get("class", d.get("field", "run"))), d)
                    elif plan["seed"] % 3 == 0:
                        w3 = build.execute(mirror_by_wrapper_plan(plan), ())
                        try:
                            w.probe("c13-twin-mirror-by-wrapper-compared")
                            if w3.final_tree is not None:
                                d3 = struct_mirror_equal(tree_struct(t1), tree_struct(w3.final_tree))
                                if d3 is None and w3.n_requests != w.n_requests:
                                    d3 = {"requests": [w.n_requests, w3.n_requests]}
                                if w3.outcome != w.outcome:
                                    d3 = d3 or {"outcomes": [w.outcome, w3.outcome]}
                                if d3 is not None:
                                    w.violate(PROP, "twin-by-wrapper-differs/" + str(d3.get("class", d3.get("field", "run"))), d3)
                        finally:
                            w3.dispose()
            finally:
                w2.dispose()
        return runner.summarize_world(w, mod, plan)
    finally:
        w.dispose()
