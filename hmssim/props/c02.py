"""C02 - stored individuals carry the true fitness of their genome; history is immutable."""
import hashlib

import numpy as np

from .. import objectives
from .. import plan as P
from ..sim import Monitor
from .common import all_demes, fb, flat, gb, same_float, sentinel

PROP = "C02"
N_QUICK = 7000
N_THOROUGH = 150000
RULE = ("Plans: all engine mixes and GSC / LSC / sprout mechanisms, entry points tree/hms/minimize; strata with and "
        "without an evaluation cutoff (fault-free stratum accepts no sentinel at all); faults: budget exhaustion at an "
        "arbitrary request index, external stop signal, injected LSC verdicts.")
NONTRIVIAL_RULE = ">= 1 stored individual re-evaluated with the pure twin and >= 1 recorded generation re-digested at a later boundary"
EXPECTED_PROBES = ["c02-individuals-reevaluated", "c02-generations-redigested", "c02-sentinel-justified",
                   "c02-seeds-checked", "c02-best-checked", "c02-local-history-checked", "c02-minimize-checked"]
ASSUMPTIONS = ["the pure twin is the same pure-python function the tap wraps; equality is bitwise on float64",
               "the +-inf sentinel is accepted only if the tap above the cutoff layer recorded a refused request by the same deme for exactly that genome"]

PROFILE = P.profile(p_cutoff=0.4, p_no_elite=0.08, entry_w={"tree": 8, "hms": 1, "minimize": 1.5},
                    leaf_engines={"local": 4, "cma": 4})


def gen(seed, tier):
    pl = P.gen_plan(seed, PROFILE, PROP)
    if tier == "thorough" and seed % 2 == 0:
        pl["c02_mid_consults"] = True  # histories re-digested and re-evaluated at every consult, not only at boundaries
    from .c12 import crossover_only, whole_population_generator

    crossover_only(pl, seed)
    if whole_population_generator(pl, seed):
        pl["c02_mid_consults"] = True  # a recorded generation must not change between the two phases of a step either
    if seed % 10 == 3 and "levels" in pl:
        from .. import objectives as _o
        import random as _r

        pl["objective"] = _o.gen_objective(_r.Random(seed), pl["dim"], pl["box"], pl["maximize"], ["clipint"])
    # a quarter of the multi-stack plans: every level has its own objective (coarse / fine models of one landscape)
    if "stacks" in pl and len(pl["stacks"]) > 1 and seed % 4 == 0:
        import copy

        so = []
        for si in range(len(pl["stacks"])):
            o = copy.deepcopy(pl["objective"])
            o["offset"] = o.get("offset", 0.0) + 2.5 * si
            so.append(o)
        pl["stack_objectives"] = so
        if seed % 8 == 0:
            # evaluation caches (FunctionProblem(use_cache=True)) on every level: a value cached for one level's
            # objective must never be served to another level; an earlier tree of the same process (same seeds and
            # box, another objective) must not leak its cache either
            for st in pl["stacks"]:
                st["use_cache"] = True
            import copy as _c

            prev = []
            for o in so:
                o2 = _c.deepcopy(o)
                o2["offset"] = o2.get("offset", 0.0) + 50.0
                prev.append(o2)
            pl["preceded_by"] = [{"stack_objectives": prev, "faults": {}}]
            pl["uses_cache"] = True
    return pl


class C02Monitor(Monitor):
    prop = PROP

    def __init__(self, w):
        super().__init__(w)
        from ..build import objective_spec

        n_st = len(w.plan.get("stacks", [None]))
        self.pures = [objectives.make_pure(objective_spec(w.plan, si)) for si in range(max(1, n_st))]
        self.pure = self.pures[0]
        if w.plan.get("stack_objectives"):
            w.probe("c02-per-level-objectives")
        if w.plan.get("uses_cache"):
            w.probe("c02-evaluation-cache-plans")
        self.maximize = bool(w.plan["maximize"])
        self.recorded = {}  # (id(deme), gen index) -> digest
        self.keep = []  # strong refs
        self.mid = w.plan.get("c02_mid_consults", False)

    def _pure_for(self, ind):
        """The objective of the problem the individual itself is attached to (levels may have their own)."""
        if len(self.pures) == 1:
            return self.pure
        p = getattr(ind, "problem", None)
        hops = 0
        while p is not None and hops < 20:
            ff = p.__dict__.get("fitness_function") if hasattr(p, "__dict__") else None
            if ff is not None and hasattr(ff, "stack_id"):
                return self.pures[ff.stack_id]
            p = p.__dict__.get("_inner") if hasattr(p, "__dict__") else None
            hops += 1
        return self.pure

    def _refused(self, deme, g):
        o = self.w.deme_ord(deme)
        for st in self.w.stacks:
            if (o, g) in st["refused_genomes"]:
                return True
        return False

    def _check_ind(self, deme, ind, where, cls):
        w = self.w
        w.probe("c02-individuals-reevaluated")
        x = np.asarray(ind.genome, dtype=float)
        want = self._pure_for(ind)(x)
        if same_float(ind.fitness, want):
            return
        if same_float(ind.fitness, sentinel(self.maximize)):
            # any deme may hold it (a seed object is shared between parent and local child): look for a refusal by any deme
            g = gb(x)
            for st in w.stacks:
                for (o, gg) in st["refused_genomes"]:
                    if gg == g:
                        w.probe("c02-sentinel-justified")
                        return
            self.violate("sentinel-without-refusal/" + cls, {"where": where, "deme": deme.id if deme else None,
                                                             "genome": x.tolist(), "true": want})
            return
        self.violate("fitness-mismatch/" + cls, {"where": where, "deme": deme.id if deme else None, "genome": x.tolist(),
                                                 "stored": float(ind.fitness) if ind.fitness is not None else None,
                                                 "true": want})

    def _scan(self, tree, where):
        w = self.w
        for d in all_demes(tree):
            cls = type(d).__name__
            gens = flat(d)
            for gi, gen in enumerate(gens):
                h = hashlib.sha256()
                for ind in gen:
                    h.update(gb(ind.genome))
                    h.update(fb(ind.fitness))
                dg = h.digest() + bytes([len(gen) % 256])
                key = (id(d), gi)
                old = self.recorded.get(key)
                if old is None:
                    self.recorded[key] = dg
                    self.keep.append(d)
                    for ind in gen:
                        self._check_ind(d, ind, where, cls)
                    if cls == "LocalDeme" and gi > 0:
                        w.probe("c02-local-history-checked")
                else:
                    w.probe("c02-generations-redigested")
                    if old != dg:
                        self.violate("history-changed/" + cls, {"where": where, "deme": d.id, "generation": gi})
                        self.recorded[key] = dg
            # a recorded generation must not disappear either
            b = d.best_individual
            if b is not None:
                w.probe("c02-best-checked")
                self._check_ind(d, b, where + "/deme-best", cls)
        tb = tree.best_individual
        if tb is not None:
            self._check_ind(None, tb, where + "/tree-best", "tree")

    def on_boundary(self, tree):
        self._scan(tree, "boundary")

    def on_consult(self, tree, site, deme, raw, verdict):
        if self.mid and site != "boundary" and self.w.tree_ready:
            self._scan(tree, site)

    def on_seeds(self, tree, res):
        for d, c in res.items():
            for ind in c.individuals:
                self.w.probe("c02-seeds-checked")
                self._check_ind(d, ind, "get_seeds", "seed")

    def on_end(self, tree, outcome):
        if tree is not None and outcome in ("returned",) or (tree is not None and str(outcome).startswith("capped")):
            self._scan(tree, "end")
        if self.w.plan.get("entry") == "minimize" and outcome == "returned":
            r = self.w.result
            self.w.probe("c02-minimize-checked")

            class _I:
                pass

            i = _I()
            i.genome, i.fitness = r.x, r.fun
            self._check_ind(None, i, "minimize-result", "minimize")


MONITORS = [C02Monitor]


def nontrivial(w):
    return w.probes.get("c02-individuals-reevaluated", 0) > 0 and w.probes.get("c02-generations-redigested", 0) > 0
