"""C19 - a tree can be snapshotted and restored at any metaepoch boundary (crash-restart)."""
import random as _random
import sys

import numpy as np

from .. import plan as P
from ..sim import Monitor, tree_digest, tree_struct
from .common import all_demes, fb, flat, strictly_better
from .c18 import rng_state_digest
from .c07 import C07Monitor
from .c08 import limit_of

PROP = "C19"
N_QUICK = 3000
N_THOROUGH = 40000
RULE = ("Fault schedule per plan: at chosen metaepoch boundaries the real tree.pickle_dump(path) is called into the "
        "in-memory file system (some dumps with an injected ENOSPC after k bytes); right after every successful dump "
        "the snapshot is loaded and compared; at an arbitrary later GSC consult (same boundary, mid-metaepoch, "
        "pre-sprout) the run is killed (SimCrash) and restarted from the last durable snapshot, up to 2 cycles per run; "
        "the continued run is monitored (structure, level limit, accounting relative to the restored counters, "
        "never-worsening best, termination). CMA-ES mid-run state, Sobol / LHS sampler state, SHADE memory / archive, "
        "local demes, hibernating demes, half-filled levels, objectives given as closures / lambdas / callable objects.")
NONTRIVIAL_RULE = ">= 1 successful dump + load compared, or >= 1 crash-restart whose continued run was monitored to its end"
EXPECTED_PROBES = ["c19-dumps-compared", "c19-loads-compared", "c19-dump-io-failure-survived", "c19-restarts-monitored",
                   "c19-continued-run-terminated", "c19-crash-mid-metaepoch", "c19-snapshot-with-cma",
                   "c19-snapshot-with-hibernating-deme", "c19-snapshot-with-qmc", "c19-snapshot-with-shade",
                   "c19-snapshot-with-local", "c19-lambda-objective", "c19-callable-objective", "c19-second-restart"]
THOROUGH_PROBES = ["c19-enumerated-plans", "c19-enumerated-pairs"]
EXPECTED_PROBES += ["c19-shadow-continuations-compared"]  # observation only
ASSUMPTIONS = ["what a torn or truncated snapshot file loads as is not judged (the property promises nothing there)",
               "after a restart the global generators are re-seeded from the plan (a restarted process would be seeded afresh too)"]
WALL_S = 90.0

PROFILE = P.profile(entry_w={"tree": 1, "hms": 0, "minimize": 0}, p_hibernation=0.4, metaepochs=[3, 10],
                    root_engines={"ea": 4, "de": 2, "shade": 3, "lhs": 1.5, "sobol": 1.5, "custom": 0.5},
                    leaf_engines={"cma": 5, "local": 3, "shade": 3}, p_cutoff=0.15, p_stop_signal=0.1)


def gen(seed, tier):
    pl = P.gen_plan(seed, PROFILE, PROP)
    r = _random.Random(seed ^ 0xC19)
    f = pl["faults"]
    nb = r.randint(1, 3)
    snaps = sorted({P.loguniform_int(r, 1, 10) for _ in range(nb)})
    f["snapshot_at_boundary"] = snaps
    f["snapshot_path"] = "snap.pkl"
    if r.random() < 0.35:
        f["dump_fail"] = [{"boundary": r.choice(snaps + [P.loguniform_int(r, 1, 10)]),
                           "after_bytes": P.loguniform_int(r, 1, 20000)}]
    if r.random() < 0.75:
        c1 = P.loguniform_int(r, 2, 120)
        crashes = [c1]
        if r.random() < 0.3:
            crashes.append(c1 + P.loguniform_int(r, 1, 80))
        f["crash_at_consult"] = crashes
    pl["objective_form"] = r.choice(["closure", "lambda", "callable", "global_counter", "main_def"])
    if seed % 5 == 0:
        pl["redirect_stdout"] = True
    for l in pl["levels"]:
        if l["engine"] == "cma" and l.get("sigma0") is None and seed % 2 == 0:
            l["sigma0_omitted"] = True  # CMALevelConfig(...) without the sigma0 argument
    if seed % 7 == 0:
        P.nan_stratum(pl, seed)
    if r.random() < 0.5 and 1 not in f["snapshot_at_boundary"]:
        f["snapshot_at_boundary"] = sorted(set(f["snapshot_at_boundary"]) | {1, 2})
    if tier == "thorough" and seed % 6 == 0:
        # small plan whose whole (snapshot boundary x later crash consult) fault space is enumerated
        pl["c19_enumerate"] = True
        pl["gsc"] = {"kind": "metaepoch_limit", "limit": r.randint(2, 4)}
        for l in pl["levels"]:
            if "pop_size" in l:
                l["pop_size"] = min(l["pop_size"], 8 if l.get("ea") != "MWEA" else 8)
            l["generations"] = min(l.get("generations", 1), 2)
        pl["faults"] = {"snapshot_path": "snap.pkl"}
    return pl


class C19Monitor(Monitor):
    prop = PROP

    def __init__(self, w):
        super().__init__(w)
        self.maximize = bool(w.plan["maximize"])
        f = w.faults
        self.snap_at = set(f.get("snapshot_at_boundary", []))
        self.fail_at = {int(d["boundary"]): int(d["after_bytes"]) for d in f.get("dump_fail", [])}
        self.path = f.get("snapshot_path", "snap.pkl")
        self.durable = None  # record of the last successful dump
        self.base = None  # after a restart: counters per deme id
        self.req_seen = 0
        self.struct = C07Monitor(w)
        self.struct.prop = PROP
        self.L = limit_of(w.plan)
        self.best_floor = None
        self.last_verdict = None
        from .. import build as _b

        self._g0 = len(_b.GLOBAL_CALLS)
        self._shadow_calls = 0

    # ------------------------------------------------------------------ observation of a tree
    def _accessors(self, tree):
        """Public per-deme query accessors (values or the exception they raise), for the observational comparison."""
        out = []
        for d in all_demes(tree):
            row = [d._id]
            for name in ("centroid", "mean", "covariance_matrix", "best_fitness_by_metaepoch", "metaepoch_count",
                         "started_at", "is_active", "n_evaluations"):
                try:
                    v = getattr(d, name)
                    if isinstance(v, np.ndarray):
                        v = ("array", v.shape, np.ascontiguousarray(v, dtype=float).tobytes())
                    elif isinstance(v, dict):
                        v = tuple(sorted((k, fb(float(x))) for k, x in v.items()))
                    row.append((name, v))
                except Exception as e:
                    row.append((name, "raises " + type(e).__name__))
            bi = d.best_individual
            if self.w.plan.get("nan_stratum"):
                bi = None  # with NaN fitness ties "the best" is a documented coin flip (FunctionProblem.worse_than)
            row.append(("best", None if bi is None else (np.asarray(bi.genome, dtype=float).tobytes(), fb(bi.fitness))))
            out.append(tuple(row))
        return out

    def _observe(self, tree):
        # observing must not itself disturb the run: comparisons of NaN fitness values draw from the global
        # `random` generator (FunctionProblem.worse_than), so the generators' states are put back afterwards
        st = (np.random.get_state(), _random.getstate())
        try:
            return self._observe_inner(tree)
        finally:
            np.random.set_state(st[0])
            _random.setstate(st[1])

    def _observe_inner(self, tree):
        return {
            "accessors": self._accessors(tree),
            "digest": tree_digest(tree),
            "struct": tree_struct(tree),
            "summary": tree.summary() if not self.w.plan.get("nan_stratum") else None,
            "counters": [(d._id, d.n_evaluations) for d in all_demes(tree)],
            "flags": [(d._id, bool(d._active), bool(d._hibernating)) for d in all_demes(tree)],
            "n_evaluations": tree.n_evaluations,
            "metaepoch_count": tree.metaepoch_count,
            "best": fb(tree.best_individual.fitness) if not self.w.plan.get("nan_stratum") else None,
            # the shipped GSC's own verdict (the injected external stop signal lives in the simulator, not in the tree)
            "gsc": bool(getattr(tree._gsc, "inner", tree._gsc)(tree)),
        }

    def _diff(self, a, b):
        return [k for k in a if a[k] != b[k]]

    def on_consult(self, tree, site, deme, raw, verdict):
        self.last_verdict = verdict
        if site != "gen":
            self._continued_checks(tree, site)

    def on_boundary(self, tree):
        w = self.w
        b = w.n_boundaries
        self._compare_shadow(tree)
        if b in self.fail_at:
            before = self._observe(tree)
            rng = rng_state_digest()
            w.fs.fail_next_write_after = self.fail_at[b]
            raised = False
            try:
                tree.pickle_dump(self.path + ".tmp")
            except OSError:
                raised = True
            w.fs.fail_next_write_after = None
            if raised:
                w.probe("c19-dump-io-failure-survived")
                after = self._observe(tree)
                d = self._diff(before, after)
                if d or rng_state_digest() != rng:
                    self.violate("failed-dump-altered-live-tree", {"changed": d, "rng_changed": rng_state_digest() != rng})
        if b in self.snap_at:
            before = self._observe(tree)
            rng = rng_state_digest()
            try:
                tree.pickle_dump(self.path)
            except Exception as e:
                self.violate("dump-raised", {"error": repr(e)[:300], "engines": [l["engine"] for l in w.plan["levels"]],
                                             "objective_form": w.plan.get("objective_form")})
                return
            w.fire("snapshot")
            after = self._observe(tree)
            w.probe("c19-dumps-compared")
            d = self._diff(before, after)
            if d:
                self.violate("dump-altered-live-tree", {"changed": d})
            if rng_state_digest() != rng:
                self.violate("dump-altered-global-rng", {})
            names = {type(x).__name__ for x in all_demes(tree)}
            for cls, pr in (("CMADeme", "cma"), ("SHADEDeme", "shade"), ("LocalDeme", "local")):
                if cls in names:
                    w.probe("c19-snapshot-with-" + pr)
            if names & {"LHSDeme", "SobolDeme"}:
                w.probe("c19-snapshot-with-qmc")
            if any(x._hibernating for x in all_demes(tree)):
                w.probe("c19-snapshot-with-hibernating-deme")
            if w.plan.get("nan_stratum"):
                w.probe("c19-snapshot-nan-stratum")
            if w.plan.get("objective_form") == "lambda":
                w.probe("c19-lambda-objective")
            elif w.plan.get("objective_form") == "callable":
                w.probe("c19-callable-objective")
            # load right away and compare
            try:
                t2 = type(tree).pickle_load(self.path)
            except Exception as e:
                self.violate("load-raised", {"error": repr(e)[:300]})
                return
            if rng_state_digest() != rng:
                self.violate("load-altered-global-rng", {})
            obs2 = self._observe(t2)
            w.probe("c19-loads-compared")
            d = self._diff(before, obs2)
            if d:
                self.violate("loaded-tree-differs/" + "+".join(d[:3]), {"changed": d})
            if t2 is tree or any(a is b_ for a, b_ in zip(all_demes(tree), all_demes(t2))):
                self.violate("loaded-tree-shares-demes-with-live-tree", {})
            self.durable = before
            self._shadow_step(tree, t2)

    # ------------------------------------------------------------------ shadow continuation of the loaded copy
    def _levels_digest(self, tree):
        import hashlib

        from ..sim import deme_digest_parts

        h = hashlib.sha256()
        h.update(repr(tree.metaepoch_count).encode())
        for lv in tree.levels:
            h.update(b"|")
            for d in lv:
                h.update(repr(deme_digest_parts(d)).encode())
        return h.digest()

    def _shadow_step(self, tree, t2):
        """Observation (not a judgement, see _compare_shadow): the loaded copy is stepped once from the present state
        of the global generators (detached from the simulator: nothing it does is recorded), the generators are put
        back, and after the live tree's next metaepoch the two are compared."""
        w = self.w
        self.shadow = None
        f = w.faults
        if w.plan.get("nan_stratum") or f.get("lsc_inject") or f.get("stop_at_consult") is not None:
            return  # injected verdicts live in the simulator and would not reach the detached copy
        if self.last_verdict:
            return  # the live run returns at this boundary
        st = (np.random.get_state(), _random.getstate())
        clock_now = w.clock.now
        from .. import build as _b

        g_before = len(_b.GLOBAL_CALLS)
        w.shadow = True
        try:
            t2.run_step()
            self.shadow = {"digest": self._levels_digest(t2), "boundary": w.n_boundaries, "restarts": w.restarts}
            w.probe("c19-shadow-continuations")
        except Exception as e:
            self.shadow = {"error": type(e).__name__, "boundary": w.n_boundaries, "restarts": w.restarts}
        finally:
            w.shadow = False
            self._shadow_calls += len(_b.GLOBAL_CALLS) - g_before
            w.clock.now = clock_now
            np.random.set_state(st[0])
            _random.setstate(st[1])

    def _compare_shadow(self, tree):
        w = self.w
        sh = getattr(self, "shadow", None)
        if not sh or sh["boundary"] + 1 != w.n_boundaries or sh["restarts"] != w.restarts:
            return
        self.shadow = None
        if "error" in sh:
            w.probe("c19-shadow-step-raised")
            return
        w.probe("c19-shadow-continuations-compared")
        if self._levels_digest(tree) != sh["digest"]:
            # OBSERVATION ONLY.  C19 lists what "observationally identical" means (summary, structure, histories,
            # fitness values, counts, flags, stop-condition verdict) and asks that the loaded tree can be run further
            # and keeps the invariants; it does not promise that the copy continues like the original.  On the
            # unchanged tree it does not for CMA-ES levels: the snapshot pickles `np.random.randn` together with
            # its RandomState, so a restored CMA-ES deme draws from a private copy of the generator.
            eng = "+".join(sorted({l["engine"] for l in w.plan["levels"]}))
            w.probe("c19-continuation-differs-observed/" + ("with-cma" if "cma" in eng else "without-cma"))

    # ------------------------------------------------------------------ continued run after a restart
    def on_restart(self, tree):
        w = self.w
        w.probe("c19-restarts-monitored")
        if w.restarts >= 2:
            w.probe("c19-second-restart")
        if self.durable is not None:
            obs = self._observe(tree)
            d = self._diff(self.durable, obs)
            if d:
                self.violate("restored-tree-differs/" + "+".join(d[:3]), {"changed": d})
            import struct as _st

            self.best_floor = None if self.durable["best"] is None else _st.unpack("<d", self.durable["best"])[0]
        self.base = {d._id: d.n_evaluations for d in all_demes(tree)}
        self.req_seen = len(w.requests)
        self.req_by = {}
        self.struct.known = {id(d) for d in all_demes(tree)}
        self.struct._structure(tree, "restored")
        c = w.consults[-1] if w.consults else None
        if c is not None and c[1] == "gen":
            w.probe("c19-crash-mid-metaepoch")

    def on_get_seeds_begin(self, tree):
        self.struct.on_get_seeds_begin(tree)

    def on_seeds(self, tree, res):
        self.struct.on_seeds(tree, res)

    def on_sprout_end(self, tree):
        self.struct.on_sprout_end(tree)
        self._census(tree, "sprout-end")

    def on_tree(self, tree):
        self.struct.on_tree(tree)

    def _census(self, tree, where):
        if self.L is None or self.w.plan.get("nan_stratum"):
            return  # (with NaN fitness values the filters' comparisons are coin flips: the limit is not judged there)
        for li in range(1, len(tree.levels)):
            n = sum(1 for d in tree.levels[li] if d._active)
            if n > self.L:
                self.violate("level-limit-exceeded" + ("-after-restart" if self.w.restarts else ""),
                             {"level": li, "active": n, "limit": self.L, "where": where})

    def _continued_checks(self, tree, where):
        w = self.w
        if not w.tree_ready:
            return
        self._census(tree, where)
        if where == "boundary":
            self.struct._structure(tree, "boundary")
            if self.w.plan.get("nan_stratum"):
                return
            bf = float(tree.best_individual.fitness)
            if self.best_floor is not None and strictly_better(self.best_floor, bf, self.maximize):
                self.violate("best-got-worse-after-restart", {"snapshot_best": self.best_floor, "now": bf})
            self.best_floor = bf if self.best_floor is None or strictly_better(bf, self.best_floor, self.maximize) else self.best_floor
        if self.base is not None:
            for r in w.requests[self.req_seen:]:
                self.req_by[r.deme] = self.req_by.get(r.deme, 0) + 1
            self.req_seen = len(w.requests)
            tot = 0
            for d in all_demes(tree):
                delta = d.n_evaluations - self.base.get(d._id, 0)
                n = self.req_by.get(w.deme_ord(d), 0)
                tot += d.n_evaluations
                if delta != n:
                    self.violate("accounting-after-restart/" + type(d).__name__,
                                 {"deme": d._id, "counter_delta": delta, "requests_since_restart": n, "where": where})
            if tree.n_evaluations != tot:
                self.violate("tree-total-vs-sum-after-restart", {})

    def on_end(self, tree, outcome):
        w = self.w
        if tree is None:
            return
        if w.plan.get("objective_form") == "global_counter" and outcome in ("returned",) and not w.plan.get("nan_stratum"):
            from .. import build as _b

            seen = len(_b.GLOBAL_CALLS) - self._g0 - self._shadow_calls
            w.probe("c19-objective-side-effects-judged")
            if seen != w.n_invocations:
                self.violate("objective-side-effects-lost" + ("-after-restore" if w.restarts else ""),
                             {"calls_seen_by_module_level_counter": seen, "objective_invocations": w.n_invocations,
                              "restarts": w.restarts})
        if w.restarts and outcome == "returned":
            w.probe("c19-continued-run-terminated")
            self._continued_checks(tree, "end")


MONITORS = [C19Monitor]


def run(plan):
    """Default: one execution of the plan's own fault schedule.  Enumeration plans (thorough tier): a fault-free
    dry run counts boundaries B and consults N, then *every* pair (snapshot at boundary k, crash at consult c >= the
    consult of boundary k) is executed."""
    import copy

    from .. import build, runner

    mod = sys.modules[__name__]
    if not plan.get("c19_enumerate"):
        w = build.execute(plan, MONITORS, wall_s=WALL_S)
        try:
            if w.outcome == "exception" and w.restarts > 0 and not plan.get("nan_stratum"):
                # "The loaded tree can be run further": an exception of a structural kind in the continued run
                # is judged when the same plan without crash-restart faults runs through cleanly
                exc = w.sut_exception or ""
                last = exc.strip().splitlines()[-1] if exc.strip() else ""
                if last.split(":")[0].strip() in ("TypeError", "AttributeError", "KeyError", "NameError", "IndexError",
                                                   "UnboundLocalError", "_pickle.PicklingError", "RecursionError"):
                    p2 = copy.deepcopy(plan)
                    p2["faults"] = {k: v for k, v in plan["faults"].items() if k not in ("crash_at_consult",)}
                    w2 = build.execute(p2, (), wall_s=WALL_S)
                    clean = w2.outcome != "exception"
                    w2.dispose()
                    w.probe("c19-continued-run-exception-judged")
                    if clean:
                        w.violate(PROP, "continued-run-raised/" + last.split(":")[0].strip(),
                                  {"error": last[:300], "restarts": w.restarts,
                                   "engines": [l["engine"] for l in plan["levels"]]})
            return runner.summarize_world(w, mod, plan)
        finally:
            w.dispose()
    dry = build.execute(plan, ())
    bcons = [i + 1 for i, c in enumerate(dry.consults) if c[1] == "boundary"]
    n_cons = len(dry.consults)
    ok = dry.outcome == "returned"
    dry.dispose()
    agg = None
    pairs = 0
    if ok:
        for k, first in enumerate(bcons[:-1], start=1):  # the last boundary is the one run() returns at
            for c in range(first, n_cons + 1):
                p2 = copy.deepcopy(plan)
                p2["faults"] = {"snapshot_path": "snap.pkl", "snapshot_at_boundary": [k], "crash_at_consult": [c]}
                w = build.execute(p2, MONITORS)
                pairs += 1
                if agg is None:
                    agg = w
                else:
                    for v in w.violations:
                        v = dict(v)
                        v["detail"] = dict(v["detail"], enumerated_pair=[k, c])
                        agg.violations.append(v)
                    for kk, vv in w.probes.items():
                        agg.probes[kk] = agg.probes.get(kk, 0) + vv
                    for kk, vv in w.fired.items():
                        agg.fired[kk] = agg.fired.get(kk, 0) + vv
                    agg.states |= w.states
                    w.dispose()
    if agg is None:
        agg = build.execute(plan, MONITORS)
    try:
        agg.probe("c19-enumerated-plans")
        agg.probe("c19-enumerated-pairs", pairs)
        return runner.summarize_world(agg, mod, plan)
    finally:
        agg.dispose()


def nontrivial(w):
    return w.probes.get("c19-loads-compared", 0) > 0 or (w.probes.get("c19-restarts-monitored", 0) > 0
                                                         and w.probes.get("c19-continued-run-terminated", 0) > 0)
