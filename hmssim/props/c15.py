"""C15 - nearest-better clustering returns exactly the defined cluster seeds (in situ reference model)."""
import math

import numpy as np

from .. import plan as P
from ..sim import Monitor
from .common import flat, gb

PROP = "C15"
N_QUICK = 2500
N_THOROUGH = 60000
RULE = ("An independent O(n^2) reference NBC (index based, no string keys) re-clusters every population a simulated "
        "tree hands to NearestBetterClustering (NBC generators on SEA / DE / SHADE / LHS / Sobol / CMA-ES parents over "
        "long runs: uniform early, clustered multi-funnel, collinear-ish narrow boxes, tied plateaus, tightly converged "
        "late DE populations; dimension 1-8, sizes 4-60, random distance / truncation factors), plus metamorphic "
        "re-runs of the same harvested populations through the real code: permutation, translation, scaling by a "
        "power of two, mirrored direction with negated fitness.")
NONTRIVIAL_RULE = ">= 1 population of pairwise distinct genomes with floor(n*t) >= 2 was re-clustered and compared"
EXPECTED_PROBES = ["c15-populations-compared", "c15-metamorphic-permutation", "c15-metamorphic-translation",
                   "c15-metamorphic-scaling", "c15-metamorphic-mirror", "c15-near-duplicate-genomes",
                   "c15-tied-fitness", "c15-tie-with-best", "c15-several-clusters", "c15-skipped-duplicate-genomes",
                   "c15-no-verdict-band", "c15-population-with-clones"]
ASSUMPTIONS = ["comparisons whose outcome depends on a distance within relative 1e-9 of the cut threshold get no verdict",
               "populations with duplicate genomes are outside the statement's precondition: skipped and counted"]

PROFILE = P.profile(dims=[1, 2, 2, 3, 4, 5, 6, 8], levels_w={1: 0, 2: 7, 3: 3}, pop=[4, 40], metaepochs=[4, 16],
                    root_engines={"ea": 4, "de": 4, "shade": 3, "lhs": 1, "sobol": 1, "custom": 1.2},
                    mid_engines={"ea": 4, "de": 3, "shade": 2, "cma": 1},
                    leaf_engines={"cma": 3, "local": 2, "ea": 1},
                    sprout_w={"nbc_factory": 5, "simple_factory": 0, "composed": 5},
                    objective_kinds=["sphere", "sphere", "ellipsoid", "rastrigin", "funnel", "funnel", "stair", "linear",
                                     "discont", "abszero", "rosenbrock", "constant"],
                    lsc_w={"dont_stop": 6, "metaepoch_limit": 2, "fitness_steadiness": 1, "all_children_stopped": 0.5,
                           "dont_run": 0.3, "eval_budget": 1},
                    gsc_w={"metaepoch_limit": 8, "singular_eval_limit": 1, "fitness_eval_limit": 1, "precision": 0,
                           "root_stopped": 0.3, "all_stopped": 0.3, "no_active_nonroot": 0.3, "dont_run": 0},
                    entry_w={"tree": 9, "hms": 1, "minimize": 0.5}, p_cutoff=0.1, p_stop_signal=0.1, p_lsc_inject=0.1,
                    box_kinds={"sym": 4, "asym": 2, "decimal": 2, "tiny": 0.3, "huge": 0.3, "far": 2})


def gen(seed, tier):
    import random

    pl = P.gen_plan(seed, PROFILE, PROP)
    if pl["dim"] == 1 and pl["entry"] == "minimize":  # minimize() uses CMA-ES, which needs dimension >= 2
        pl = P.gen_plan(seed, P.profile(**{**PROFILE, "dims": [2, 3, 4]}), PROP)
    r = random.Random(seed ^ 0xC15)
    if "levels" in pl:
        # dimension 1 is legal for single objective populations of SEA / DE trees (CMA-ES needs >= 2)
        if pl["dim"] == 1:
            for l in pl["levels"][1:]:
                if l["engine"] in ("cma",):
                    l["engine"] = "local"
                    l.pop("sigma0", None)
                    l.pop("set_stds", None)
        if pl["levels"][0]["engine"] == "custom" and seed % 3 != 0:
            # a user-written (mu + lambda) engine built on Individual.clone(): parents next to their clones
            pl["levels"][0]["custom_fine"] = True
            pl["entry"] = "tree"
        sp = pl["sprout"]
        if "generator" in sp and sp["generator"]["kind"] == "best":
            sp["generator"] = {"kind": "nbc", "distance_factor": r.choice([0.5, 1.0, 1.5, 2.0, 3.0]),
                               "truncation_factor": r.choice([0.5, 0.7, 1.0])}
        # long runs of the root so that DE / SEA populations converge tightly
        if r.random() < 0.3:
            pl["gsc"] = {"kind": "metaepoch_limit", "limit": r.randint(15, 30)}
            pl["levels"][0]["generations"] = r.choice([2, 3, 4])
    return pl


def reference_nbc(fits, genomes, maximize, distance_factor, truncation_factor):
    """Returns (set of indices of cluster seeds, mean distance, list of (index, distance), n_kept) or None if the
    result is within the no-verdict band."""
    n = len(fits)
    order = sorted(range(n), key=lambda i: (-fits[i] if maximize else fits[i], i))  # stable, best first
    kept = order[: int(n * truncation_factor)]
    if len(kept) < 2:
        return {"kept": len(kept)}
    best = kept[0]
    dists = {}
    for pos in range(1, len(kept)):
        i = kept[pos]
        if fits[i] == fits[best]:
            cand = [best]
        else:
            cand = [j for j in kept[:pos] if (fits[j] > fits[i] if maximize else fits[j] < fits[i])]
        dmin = None
        for j in cand:
            dd = math.sqrt(sum((a - b) ** 2 for a, b in zip(genomes[i], genomes[j])))
            if dmin is None or dd < dmin:
                dmin = dd
        dists[i] = dmin
    mean = sum(dists.values()) / len(dists)
    thr = mean * distance_factor
    seeds = {best}
    band = False
    for i, dd in dists.items():
        if abs(dd - thr) <= 1e-9 * max(abs(thr), 1e-300):
            band = True
        if dd > thr:
            seeds.add(i)
    return {"kept": len(kept), "seeds": seeds, "mean": mean, "band": band, "dists": dists, "best": best}


class C15Monitor(Monitor):
    prop = PROP

    def __init__(self, w):
        super().__init__(w)
        self.maximize = bool(w.plan["maximize"])

    def _real(self, inds, df, tf):
        from pyhms.utils.clusterization import NearestBetterClustering

        nbc = NearestBetterClustering(inds, df, tf)
        res = nbc.cluster()
        return res, (float(np.mean(nbc.distances)) if nbc.distances else float("nan"))

    def on_generated(self, tree, gen, res):
        name = type(gen).__name__
        if name not in ("NBC_Generator", "NBCGeneratorWithLocalMethod"):
            return
        w = self.w
        df, tf = float(gen.distance_factor), float(gen.truncation_factor)
        sp = w.plan.get("sprout")
        want = None
        if sp is None:
            want = (3.0, 0.7)  # minimize(): get_NBC_sprout() defaults
        elif sp.get("factory") == "nbc":
            want = (float(sp["gen_dist_factor"]), float(sp["trunc_factor"]))
        elif "generator" in sp and sp["generator"]["kind"] != "best":
            want = (float(sp["generator"]["distance_factor"]), float(sp["generator"]["truncation_factor"]))
        if want is not None:
            w.probe("c15-configured-factors-checked")
            if want != (df, tf):
                self.violate("clustering-uses-other-factors-than-configured",
                             {"configured": list(want), "used": [df, tf], "factory": bool(sp is None or sp.get("factory"))})
                df, tf = want
        for d, c in res.items():
            if not d._active:
                continue
            pop = list(flat(d)[-1])
            self._judge(d, pop, c, df, tf)

    def _judge(self, d, pop, c, df, tf):
        w = self.w
        mx = self.maximize
        n = len(pop)
        genomes = [np.asarray(i.genome, dtype=float).tolist() for i in pop]
        fits = [float(i.fitness) for i in pop]
        if any(f != f for f in fits):
            return
        if len({gb(i.genome) for i in pop}) != n:
            w.probe("c15-skipped-duplicate-genomes")
            return
        ref = reference_nbc(fits, genomes, mx, df, tf)
        if ref["kept"] < 2:
            w.probe("c15-skipped-kept-lt-2")
            return
        if ref["band"] or not math.isfinite(ref["mean"]):
            w.probe("c15-no-verdict-band")
            return
        w.probe("c15-populations-compared")
        if len(set(fits)) < n:
            w.probe("c15-tied-fitness")
        if sum(1 for f in fits if f == fits[ref["best"]]) > 1:
            w.probe("c15-tie-with-best")
        if len(ref["seeds"]) > 1:
            w.probe("c15-several-clusters")
        strs = {str(i.genome) for i in pop}
        if len(strs) < n:
            w.probe("c15-near-duplicate-genomes")
        if len({getattr(i, "uuid", id(i)) for i in pop}) < n:
            w.probe("c15-population-with-clones")
        got = {next(k for k, x in enumerate(pop) if x is ind) for ind in c.individuals}
        cls = type(d).__name__
        if got != ref["seeds"]:
            self.violate("seeds-differ-from-definition" + ("/str-id-collision" if len(strs) < n else ""),
                         {"deme": d.id, "class": cls, "n": n, "kept": ref["kept"], "expected": sorted(ref["seeds"]),
                          "got": sorted(got), "distance_factor": df, "truncation_factor": tf,
                          "distinct_str_ids": len(strs)})
            return
        md = c.features.nbc_mean_distance
        if md is not None and abs(float(md) - ref["mean"]) > 1e-9 * max(abs(ref["mean"]), 1e-300):
            self.violate("mean-distance-differs", {"deme": d.id, "expected": ref["mean"], "got": float(md)})
            return
        # ---------------------------------------------------------------- metamorphic re-runs through the real code
        from pyhms.core.individual import Individual
        from pyhms.core.problem import FunctionProblem

        prob = pop[0].problem
        tie_best = sum(1 for f in fits if f == fits[ref["best"]]) > 1

        def rerun(gs, fs, maximize, perm=None):
            p2 = FunctionProblem(lambda x: 0.0, bounds=prob.bounds, maximize=maximize)
            inds = [Individual(np.array(g, dtype=float), p2, fitness=f) for g, f in zip(gs, fs)]
            out, _ = self._real(inds, df, tf)
            idx = {id(x): k for k, x in enumerate(inds)}
            s = {idx[id(x)] for x in out}
            if perm is not None:
                s = {perm[k] for k in s}
            return s

        def band_free(gs):
            r2 = reference_nbc(fits, gs, mx, df, tf)
            return (not r2["band"]) and r2["seeds"] == ref["seeds"]

        k = (w.seq * 2654435761) % (2 ** 32)
        import random

        rr = random.Random(k)
        # permutation (skipped when the best fitness is tied: "the best one" then depends on the input order; and when
        # a fitness tie straddles the truncation cut: which of the tied individuals is kept then depends on the order)
        order = sorted(range(n), key=lambda i: (-fits[i] if mx else fits[i], i))
        kk = ref["kept"]
        tie_at_cut = kk < n and fits[order[kk - 1]] == fits[order[kk]]
        if tie_at_cut:
            w.probe("c15-tie-at-truncation-cut")
        if not tie_best and not tie_at_cut:
            perm = list(range(n))
            rr.shuffle(perm)
            s = rerun([genomes[i] for i in perm], [fits[i] for i in perm], mx, perm)
            w.probe("c15-metamorphic-permutation")
            if s != ref["seeds"]:
                self.violate("metamorphic-permutation", {"deme": d.id, "n": n, "expected": sorted(ref["seeds"]), "got": sorted(s)})
                return
        # translation
        shift = [rr.choice([1.0, -3.0, 1024.0, 0.1]) for _ in genomes[0]]
        gs = [[a + b for a, b in zip(g, shift)] for g in genomes]
        if len({tuple(g) for g in gs}) == n and band_free(gs):
            s = rerun(gs, fits, mx)
            w.probe("c15-metamorphic-translation")
            if s != ref["seeds"]:
                self.violate("metamorphic-translation", {"deme": d.id, "n": n, "shift": shift,
                                                         "expected": sorted(ref["seeds"]), "got": sorted(s)})
                return
        # scaling by a power of two (exact in binary floating point)
        sc = rr.choice([2.0, 0.5, 1024.0, 2.0 ** -10])
        gs = [[a * sc for a in g] for g in genomes]
        if band_free(gs):
            s = rerun(gs, fits, mx)
            w.probe("c15-metamorphic-scaling")
            if s != ref["seeds"]:
                self.violate("metamorphic-scaling", {"deme": d.id, "n": n, "scale": sc,
                                                     "expected": sorted(ref["seeds"]), "got": sorted(s)})
                return
        # mirrored direction with negated fitness
        s = rerun(genomes, [-f for f in fits], not mx)
        w.probe("c15-metamorphic-mirror")
        if s != ref["seeds"]:
            self.violate("metamorphic-mirror", {"deme": d.id, "n": n, "expected": sorted(ref["seeds"]), "got": sorted(s)})


MONITORS = [C15Monitor]


def nontrivial(w):
    return w.probes.get("c15-populations-compared", 0) > 0
