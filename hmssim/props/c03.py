"""C03 - evaluation counts are exact and evaluation budgets are hard limits."""
from .. import plan as P
from ..sim import Monitor
from pyhms.core.problem import EvalCutoffProblem

PROP = "C03"
N_QUICK = 7000
N_THOROUGH = 150000
RULE = ("Plans: all engine mixes, 1-3 levels, shared and per-level wrapper stacks, budgets N log-uniform from 1 to "
        "beyond the natural end, all GSCs, entry points tree/hms/minimize; faults: budget exhaustion, external stop "
        "signal, injected LSC verdicts.")
NONTRIVIAL_RULE = "the monitor compared counters with the tap logs at >= 1 consult after >= 1 completed metaepoch"
EXPECTED_PROBES = ["c03-consult-judgements", "c03-cutoff-layer-checked", "c03-cutoff-exhausted", "c03-local-deme-counted",
                   "c03-minimize-checked"]
ASSUMPTIONS = ["a 'request' is a call of evaluate() on the top of a level's problem stack, attributed to the deme "
               "whose frame is nearest on the Python stack"]

PROFILE = P.profile(p_cutoff=0.5, entry_w={"tree": 7, "hms": 1, "minimize": 3},
                    leaf_engines={"local": 4, "cma": 4})


def gen(seed, tier):
    pl = P.gen_plan(seed, PROFILE, PROP)
    if "levels" in pl:
        import random as _rm

        rm = _rm.Random(seed ^ 0x10CA1)
        for l in pl["levels"]:
            if l["engine"] == "local":
                # "for every engine including the local optimiser": whatever bound-aware scipy method it is given
                l["method"] = rm.choice(["L-BFGS-B", "L-BFGS-B", "l-bfgs-b", "COBYLA", "trust-constr", "Powell", "SLSQP",
                                         "Nelder-Mead"])
    if "levels" in pl and seed % 2 == 0:
        for l in pl["levels"]:
            if l["engine"] == "custom":
                l["custom_fine"] = True  # a user engine that breeds with Individual.clone() and evaluates the clones
                pl["entry"] = "tree"
    if "minimize" in pl and pl["minimize"].get("maxfun") is not None:
        # budgets are not always Python ints: np.arange / rng.integers give numpy integers, 1e3 is a float
        pl["minimize"]["maxfun_type"] = ["int", "int", "np.int64", "float"][seed % 4]
    return pl


class C03Monitor(Monitor):
    prop = PROP

    def __init__(self, w):
        super().__init__(w)
        self.req_by_deme = {}
        self.inv_by_deme = {}
        self.refusing = False
        self.last_seen = 0

    def _absorb(self):
        reqs = self.w.requests
        for r in reqs[self.last_seen:]:
            self.req_by_deme[r.deme] = self.req_by_deme.get(r.deme, 0) + 1
            if r.invoked:
                self.inv_by_deme[r.deme] = self.inv_by_deme.get(r.deme, 0) + r.invoked
            else:
                self.refusing = True
            if r.deme < 0:
                self.w.probe("c03-unattributed-request")
        self.last_seen = len(reqs)

    def _check(self, tree, where):
        w = self.w
        self._absorb()
        total = tree.n_evaluations
        s = 0
        per_level_cnt = [0] * len(tree.levels)
        per_level_inv = [0] * len(tree.levels)
        for li, lv in enumerate(tree.levels):
            for d in lv:
                n = d.n_evaluations
                s += n
                per_level_cnt[li] += n
                o = w.deme_ord(d)
                nreq = self.req_by_deme.get(o, 0)
                per_level_inv[li] += self.inv_by_deme.get(o, 0)
                if n != nreq:
                    self.violate("deme-count-vs-requests/" + type(d).__name__,
                                 {"where": where, "deme": d.id, "n_evaluations": n, "requests": nreq})
                if type(d).__name__ == "LocalDeme" and n > 0:
                    w.probe("c03-local-deme-counted")
        if total != s:
            self.violate("tree-total-vs-sum", {"where": where, "tree": total, "sum": s})
        if not self.refusing:
            if total != w.n_invocations:
                self.violate("total-vs-invocations", {"where": where, "tree": total, "invocations": w.n_invocations})
            for li in range(len(tree.levels)):
                if per_level_cnt[li] != per_level_inv[li]:
                    self.violate("level-vs-invocations", {"where": where, "level": li, "count": per_level_cnt[li],
                                                           "invocations": per_level_inv[li]})
        # budgets
        for st in w.stacks:
            for pos, layer in enumerate(st["layers"]):
                if isinstance(layer, EvalCutoffProblem):
                    n = layer._eval_cutoff
                    fwd = st["n_in"][pos]
                    reached = st["n_in"][pos + 1]
                    w.probe("c03-cutoff-layer-checked")
                    if fwd > n:
                        self.violate("cutoff-exceeded", {"where": where, "cutoff": n, "forwarded": fwd})
                    if fwd != min(n, reached):
                        self.violate("cutoff-forwarded-wrong", {"where": where, "cutoff": n, "forwarded": fwd,
                                                                "reached": reached})
                    if reached > n:
                        w.probe("c03-cutoff-exhausted")
        w.probe("c03-consult-judgements")

    def on_consult(self, tree, site, deme, raw, verdict):
        if self.w.tree_ready:
            self._check(tree, site)

    def on_end(self, tree, outcome):
        w = self.w
        if tree is not None and outcome == "returned":
            self._check(tree, "end")
        if w.plan.get("entry") == "minimize" and outcome == "returned":
            res = w.result
            m = w.plan["minimize"]
            ncalls = w.n_invocations
            w.probe("c03-minimize-checked")
            if res.nfev != ncalls:
                self.violate("minimize-nfev", {"nfev": int(res.nfev), "calls": ncalls, "maxfun": m.get("maxfun")})
            if m.get("maxfun") is not None and ncalls > m["maxfun"]:
                self.violate("minimize-maxfun-exceeded", {"calls": ncalls, "maxfun": m["maxfun"]})
            if m.get("maxfun") is not None and ncalls >= m["maxfun"]:
                w.probe("c03-minimize-budget-exhausted")


MONITORS = [C03Monitor]


def nontrivial(w):
    return w.probes.get("c03-consult-judgements", 0) > 0 and w.steps_done > 0
