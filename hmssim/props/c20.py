"""C20 - reports agree with the tree, and looking at a tree does not change it."""
import copy
import hashlib
import random as _random
import re
import sys

import numpy as np

from .. import plan as P
from ..sim import Monitor, tree_digest
from .common import all_demes, flat, gb, same_float, strictly_better
from .c18 import rng_state_digest

PROP = "C20"
N_QUICK = 4000
N_THOROUGH = 100000
RULE = ("summary() and tree() are parsed at every boundary and compared with public state; at plan-chosen consults "
        "(also mid-metaepoch) a random subset of {summary, tree, best_individual, all_individuals, r5s_solutions, "
        "per-deme best / best_current / centroid / best_fitness_by_metaepoch} is called twice (observer interference "
        "fault); every plan is executed a second time without any probe and must end with the identical tree digest "
        "and call log. Trees with fresh, stopped and hibernating demes, 1-3 levels, both directions, objectives whose "
        "best value is exactly 0.0.")
NONTRIVIAL_RULE = ">= 2 boundaries with parsed reports and >= 1 observer probe mid-run, plus the probe-free twin compared"
EXPECTED_PROBES = ["c20-reports-parsed", "c20-deme-lines-checked", "c20-marker-checked", "c20-best-exactly-zero",
                   "c20-observer-probes", "c20-observer-probes-mid-metaepoch", "c20-twin-compared",
                   "c20-hidden-fresh-deme", "c20-hibernating-deme-displayed", "c20-stopped-deme-displayed",
                   "c20-stats-line-checked"]
ASSUMPTIONS = ["report lines are parsed with regular expressions on the documented line shapes (tree() docstring)"]

PROFILE = P.profile(objective_kinds=["sphere", "stair", "stair", "abszero", "abszero", "constant", "funnel", "rastrigin",
                                     "linear", "ellipsoid"],
                    p_hibernation=0.4, entry_w={"tree": 9, "hms": 1, "minimize": 0}, p_extra_layers=0.7,
                    metaepochs=[2, 10], p_cutoff=0.15)

ACCESSORS = ["summary", "tree", "best_individual", "all_individuals", "r5s_solutions", "deme_best", "deme_best_current",
             "deme_centroid", "deme_bfbm"]

LINE = re.compile(r"^(?P<prefix>[ |└├-]*)(?P<cls>\w+) (?P<id>\S+)(?P<star> \*\*\* | )f\((?P<x>[^)]*)\) ~= "
                  r"(?P<fit>\S+)(?: sprout: \((?P<sprout>[^)]*)\);)? evals: (?P<evals>\d+) (?P<new>\(new_deme\))?$")


def gen(seed, tier):
    prof = PROFILE
    if seed % 16 == 9:
        prof = P.profile(**{**PROFILE, "dims": [12, 13, 14], "pop": [4, 8], "metaepochs": [2, 5]})  # long genome lines
    pl = P.gen_plan(seed, prof, PROP)
    r = _random.Random(seed ^ 0xC20)
    probes = []
    for _ in range(r.randint(1, 5)):
        probes.append({"consult": P.loguniform_int(r, 1, 120),
                       "accessors": r.sample(ACCESSORS, r.randint(1, len(ACCESSORS)))})
    pl["probes"] = probes
    if pl["objective"]["kind"] in ("stair", "abszero", "constant") and r.random() < 0.8:
        pl["objective"]["offset"] = 0.0  # best value exactly 0.0 reachable
    if pl.get("entry") in ("tree", "steps") and seed % 6 == 1:
        # the user calls run_metaepoch() and run_sprout() himself (the tree's metaepoch counter stays where it is)
        pl["entry"] = "phases"
        pl["phase_rounds"] = 3 + seed % 6
        pl["faults"] = {k: v for k, v in pl.get("faults", {}).items() if k == "lsc_inject"}
    if "levels" in pl and seed % 7 == 0:
        P.nan_stratum(pl, seed)  # stored individuals with NaN fitness: looking must still not evaluate anything
    return pl


def _val_equal(a, b):
    if a is b:
        return True
    if isinstance(a, str) or isinstance(b, str):
        return a == b
    if a is None or b is None:
        return a is b
    if isinstance(a, dict) and isinstance(b, dict):
        return list(a.keys()) == list(b.keys()) and all(_val_equal(a[k], b[k]) for k in a)
    if isinstance(a, (list, tuple)) and isinstance(b, (list, tuple)):
        return len(a) == len(b) and all(_val_equal(x, y) for x, y in zip(a, b))
    if isinstance(a, np.ndarray) or isinstance(b, np.ndarray):
        try:
            return np.array_equal(np.asarray(a), np.asarray(b), equal_nan=True)
        except Exception:
            return False
    if hasattr(a, "genome") and hasattr(b, "genome"):
        return gb(a.genome) == gb(b.genome) and same_float(a.fitness, b.fitness)
    if isinstance(a, float) or isinstance(b, float):
        return same_float(a, b)
    return a == b


def private_state(tree):
    """Shallow identity snapshot of all instance state a later accessor could see."""
    snap = []
    for d in all_demes(tree):
        items = []
        for k, v in d.__dict__.items():
            if isinstance(v, (int, float, bool, str, type(None))):
                items.append((k, "v", v))
            elif isinstance(v, np.ndarray):
                items.append((k, "a", id(v), v.tobytes()))
            else:
                items.append((k, "o", id(v)))
        snap.append((id(d), tuple(items)))
    items = []
    for k, v in tree.__dict__.items():
        if k == "_logger":
            continue
        if isinstance(v, (int, float, bool, str, type(None))):
            items.append((k, "v", v))
        else:
            items.append((k, "o", id(v)))
    snap.append(("tree", tuple(items)))
    return snap


class C20Monitor(Monitor):
    prop = PROP

    def __init__(self, w):
        super().__init__(w)
        self.maximize = bool(w.plan["maximize"])
        self.probes = {int(p["consult"]): p["accessors"] for p in w.plan.get("probes", [])}
        self.n_req_by_deme = {}  # the simulator's own record: evaluation requests per deme ordinal
        self.ran = {}  # id(deme) -> deme: it was stepped in some metaepoch (as seen by the simulator)

    def on_request(self, req):
        w = self.w
        if req.deme >= 0:
            self.n_req_by_deme[req.deme] = self.n_req_by_deme.get(req.deme, 0) + 1
        if w.phase == "metaepoch" and req.deme >= 0:
            d = w.deme_list[req.deme].obj
            self.ran[id(d)] = d

    def on_lsc(self, deme, raw, verdict):
        if self.w.phase == "metaepoch":
            self.ran[id(deme)] = deme

    # ------------------------------------------------------------------ reports
    def _reports(self, tree):
        w = self.w
        mx = self.maximize
        try:
            s = tree.summary()
            t = tree.tree()
        except Exception as e:
            self.violate("report-raised", {"error": repr(e)[:300]})
            return
        w.probe("c20-reports-parsed")
        lines = s.split("\n")
        best = tree.best_individual
        demes = all_demes(tree)

        def expect(idx, text, what):
            if idx >= len(lines) or lines[idx] != text:
                self.violate("summary-line/" + what, {"expected": text, "got": lines[idx] if idx < len(lines) else None})
                return False
            return True

        expect(0, "Metaepoch count: %d" % tree.metaepoch_count, "metaepoch-count")
        expect(1, "Best fitness: %.4e" % best.fitness, "best-fitness")
        expect(3 if lines[2].startswith("Best individual:") and not lines[3].startswith("Number") else 3,
               "Number of evaluations: %d" % tree.n_evaluations, "evaluations") if False else None
        # the genome line may wrap over several lines for long genomes: locate the following lines by prefix
        idx = 2
        while idx < len(lines) and not lines[idx].startswith("Number of evaluations:"):
            idx += 1
        expect(idx, "Number of evaluations: %d" % sum(d.n_evaluations for d in demes), "evaluations")
        if idx < len(lines) and not w.plan.get("faults", {}).get("crash_at_consult"):
            # "agree with the tree's state": the state as the simulator recorded it, not only as the counters tell it
            recorded = sum(self.n_req_by_deme.get(w.deme_ord(d), 0) for d in demes)
            w.probe("c20-evaluations-vs-simulator-record")
            if lines[idx] != "Number of evaluations: %d" % recorded:
                self.violate("summary-line/evaluations-vs-simulator-record", {"got": lines[idx], "requests_recorded": recorded})
        expect(idx + 1, "Number of demes: %d" % len(demes), "demes")
        pos = idx + 2
        for li, lv in enumerate(tree.levels):
            # blank line, "Level k."
            while pos < len(lines) and lines[pos] == "":
                pos += 1
            if not expect(pos, "Level %d." % (li + 1), "level-header"):
                return
            pos += 1
            if not lv:
                expect(pos, "No demes available.", "no-demes")
                pos += 1
                continue
            lb = None
            for d in lv:
                for g in flat(d):
                    for i in g:
                        if lb is None or strictly_better(i.fitness, lb, mx):
                            lb = i.fitness
            expect(pos, "Best fitness: %.4e" % lb, "level-best")
            pos += 1
            while pos < len(lines) and not lines[pos].startswith("Number of evaluations:"):
                pos += 1
            expect(pos, "Number of evaluations: %d" % sum(d.n_evaluations for d in lv), "level-evaluations")
            expect(pos + 1, "Number of demes: %d" % len(lv), "level-demes")
            pos += 2
            if pos < len(lines) and lines[pos].startswith("Problem duration"):
                w.probe("c20-stats-line-checked")
                pos += 1
        # the tree part
        if not s.endswith("\n" + t):
            self.violate("summary-does-not-end-with-tree", {})
        tl = [x for x in t.split("\n") if x != ""]
        parsed = []
        for x in tl:
            m = LINE.match(x)
            if m is None:
                self.violate("tree-line-unparsable", {"line": x})
                return
            parsed.append(m)
        # expected displayed demes: root + every deme with >= 1 metaepoch (whose ancestors are displayed)
        shown = []

        def walk(d):
            for c in d._children:
                if len(c._history) - 1 == 0:
                    w.probe("c20-hidden-fresh-deme")
                    continue
                shown.append(c)
                walk(c)

        shown.append(tree.root)
        walk(tree.root)
        for d in demes:
            if d is not tree.root and len(d._history) - 1 >= 1 and not any(d is x for x in shown):
                self.violate("deme-with-metaepochs-not-displayed", {"deme": d.id})
            if d is not tree.root and id(d) in self.ran and len(d._history) - 1 == 0 and w.plan.get("entry") != "phases":
                # the simulator saw it work through a metaepoch, its own bookkeeping says it never ran
                self.violate("deme-that-ran-not-displayed/" + type(d).__name__, {"deme": d.id,
                                                                                "n_evaluations": d.n_evaluations})
        if len(parsed) != len(shown):
            self.violate("tree-line-count", {"lines": len(parsed), "expected": len(shown)})
            return
        gbest = best.fitness
        if gbest == 0.0:
            w.probe("c20-best-exactly-zero")
        for m, d in zip(parsed, shown):
            w.probe("c20-deme-lines-checked")
            if d._hibernating:
                w.probe("c20-hibernating-deme-displayed")
            if not d._active:
                w.probe("c20-stopped-deme-displayed")
            want_id = "root" if d is tree.root else d._id
            if m.group("cls") != type(d).__name__ or m.group("id") != want_id:
                self.violate("tree-line-identity", {"line": m.group(0), "deme": d.id, "class": type(d).__name__})
                continue
            if int(m.group("evals")) != d.n_evaluations:
                self.violate("tree-line-evals", {"deme": d.id, "line": int(m.group("evals")), "actual": d.n_evaluations})
            db = d.best_individual
            if m.group("fit") != "%.2e" % db.fitness:
                self.violate("tree-line-fitness", {"deme": d.id, "line": m.group("fit"), "actual": "%.2e" % db.fitness})
            w.probe("c20-marker-checked")
            starred = m.group("star").strip() == "***"
            want = bool(db.fitness == gbest)
            if starred != want:
                self.violate("marker-wrong/" + ("missing" if want else "spurious") + ("-at-zero" if gbest == 0.0 else ""),
                             {"deme": d.id, "deme_best": float(db.fitness), "global_best": float(gbest)})

    def on_boundary(self, tree):
        if not self.w.plan.get("nan_stratum"):
            self._reports(tree)

    # ------------------------------------------------------------------ observers
    def _call(self, tree, name):
        if name == "summary":
            return tree.summary()
        if name == "tree":
            return tree.tree()
        if name == "best_individual":
            return tree.best_individual
        if name == "all_individuals":
            return list(tree.all_individuals)
        if name == "r5s_solutions":
            return list(tree.r5s_solutions) if tree.leaves else []
        out = []
        for d in all_demes(tree):
            if name == "deme_best":
                out.append(d.best_individual)
            elif name == "deme_best_current":
                out.append(d.best_current_individual)
            elif name == "deme_centroid":
                out.append(d.centroid)
            elif name == "deme_bfbm":
                out.append(d.best_fitness_by_metaepoch)
        return out

    def on_consult(self, tree, site, deme, raw, verdict):
        w = self.w
        acc = self.probes.get(w.n_consults)
        if acc is None or not w.tree_ready:
            return
        w.fire("observer-interference")
        w.probe("c20-observer-probes")
        if site == "gen":
            w.probe("c20-observer-probes-mid-metaepoch")
        for name in acc:
            before = (tree_digest(tree), w.n_invocations, [d.n_evaluations for d in all_demes(tree)],
                      rng_state_digest(), private_state(tree))
            nan_st = (np.random.get_state(), _random.getstate()) if w.plan.get("nan_stratum") else None
            try:
                a = self._call(tree, name)
                mid = private_state(tree)
                b = self._call(tree, name)
            except Exception as e:
                if nan_st is not None:
                    np.random.set_state(nan_st[0])
                    _random.setstate(nan_st[1])
                if name in ("summary", "tree"):
                    self.violate("report-raised/" + name, {"error": repr(e)[:300], "site": site})
                else:
                    # the property does not promise that query accessors never raise: observation only
                    w.probe("c20-accessor-raised/" + name)
                continue
            after = (tree_digest(tree), w.n_invocations, [d.n_evaluations for d in all_demes(tree)],
                     rng_state_digest(), private_state(tree))
            if after[1] != before[1]:
                self.violate("accessor-invoked-objective/" + name, {"site": site})
            if after[0] != before[0] or after[2] != before[2]:
                self.violate("accessor-changed-tree/" + name, {"site": site})
            if nan_st is not None:
                # (the observer's own coin flips are taken back so that the probe-free twin stays comparable)
                np.random.set_state(nan_st[0])
                _random.setstate(nan_st[1])
            if w.plan.get("nan_stratum"):
                # with NaN fitness ties a comparison is a documented coin flip on the global `random` generator:
                # RNG neutrality and equality of two answers are not judged in this stratum, invocations are
                w.probe("c20-nan-stratum-probes")
                continue
            if after[3] != before[3]:
                self.violate("accessor-changed-rng/" + name, {"site": site})
            if after[4] != before[4]:
                ch = []
                for (i1, s1), (i2, s2) in zip(before[4], after[4]):
                    if s1 != s2:
                        k1 = {x[0]: x for x in s1}
                        for x in s2:
                            if k1.get(x[0]) != x:
                                ch.append(x[0])
                self.violate("accessor-changed-private-state/" + name, {"site": site, "attributes": sorted(set(ch))[:6]})
            if not _val_equal(a, b):
                self.violate("accessor-not-idempotent/" + name, {"site": site})


MONITORS = [C20Monitor]


def nontrivial(w):
    return w.probes.get("c20-reports-parsed", 0) >= 2 and w.probes.get("c20-observer-probes", 0) >= 1 and \
        w.probes.get("c20-twin-compared", 0) >= 1


def run(plan):
    from .. import build, runner

    mod = sys.modules[__name__]
    w = build.execute(plan, MONITORS)
    try:
        if w.outcome == "returned" or str(w.outcome).startswith("capped"):
            p2 = copy.deepcopy(plan)
            p2["probes"] = []
            w2 = build.execute(p2, ())
            try:
                w.probe("c20-twin-compared")
                d1 = tree_digest(w.final_tree) if w.final_tree is not None else None
                d2 = tree_digest(w2.final_tree) if w2.final_tree is not None else None
                if w.outcome != w2.outcome or d1 != d2 or w.trace_digest() != w2.trace_digest():
                    w.violate(PROP, "observed-run-differs-from-unobserved-twin",
                              {"outcomes": [w.outcome, w2.outcome], "tree_equal": d1 == d2,
                               "trace_equal": w.trace_digest() == w2.trace_digest(),
                               "requests": [w.n_requests, w2.n_requests]})
            finally:
                w2.dispose()
        return runner.summarize_world(w, mod, plan)
    finally:
        w.dispose()
