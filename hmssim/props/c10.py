"""C10 - sprout candidates come from the right populations; filters keep the best (in situ)."""
import numpy as np

from .. import plan as P
from ..sim import Monitor
from .common import all_demes, flat, gb, strictly_better, terraced_scenario

PROP = "C10"
N_QUICK = 8000
N_THOROUGH = 200000
RULE = ("Reference specification of generators / filters evaluated on every candidate set the simulated trees produce: "
        "candidate sets come from real populations of 1-24 individuals per parent, several parents per level (3-level "
        "trees), ties from plateau objectives, both directions, full / partly full / empty target levels, arbitrary "
        "filter orders and limits. Candidate sets no trajectory produces are out of reach and not claimed.")
NONTRIVIAL_RULE = ">= 1 DemeLimit or LevelLimit invocation that had to choose (dropped >= 1 candidate) or >= 1 SkipSameSprout rejection was judged"
EXPECTED_PROBES = ["c10-generator-judged", "c10-bestperdeme-judged", "c10-filter-subset-judged", "c10-demelimit-chose",
                   "c10-levellimit-chose", "c10-levellimit-chose-maximize", "c10-levellimit-distinct-exact",
                   "c10-levellimit-tie-at-cut", "c10-skipsame-rejected", "c10-skipsame-kept-judged",
                   "c10-local-method-offer-judged", "c10-levellimit-several-parents"]
ASSUMPTIONS = ["SkipSameSprout: the grey zone around numpy.isclose's tolerance gets no verdict (a dropped candidate is "
               "judged only if some coordinate differs from every existing seed by > 10x the tolerance)"]

PROFILE = P.profile(levels_w={1: 0, 2: 5, 3: 5}, level_limit=[1, 3], p_no_level_limit=0.1,
                    sprout_w={"nbc_factory": 2, "simple_factory": 1, "composed": 7},
                    objective_kinds=["sphere", "rastrigin", "funnel", "funnel", "stair", "stair", "constant", "linear",
                                     "discont", "abszero", "ellipsoid"],
                    lsc_w={"dont_stop": 3, "metaepoch_limit": 4, "fitness_steadiness": 1, "all_children_stopped": 1,
                           "dont_run": 1, "eval_budget": 2},
                    entry_w={"tree": 9, "hms": 1, "minimize": 0}, metaepochs=[3, 14], p_cutoff=0.15)


def gen(seed, tier):
    import random

    pl = P.gen_plan(seed, PROFILE, PROP)
    r = random.Random(seed ^ 0xC10)
    local_method_scenario(pl, r, seed)
    if seed % 12 == 5 and pl["levels"][0]["engine"] in ("ea", "de", "shade"):
        # a long run of a converging root with short-lived children and SkipSameSprout: the root's best keeps moving
        # in the last digits only
        minr = min(h - l for l, h in pl["box"])
        pl["levels"][0].update({"engine": "de", "pop_size": 8, "generations": 2, "dither": False, "scaling": 0.5,
                                "crossover": 0.9, "sample_std_dev": minr * 0.05})
        for kk in ("ea", "mutation_std", "p_mutation", "k_elites", "p_crossover", "mutation_std_step", "election_group_size",
                   "memory_size"):
            pl["levels"][0].pop(kk, None)
        pl["levels"][0]["lsc"] = {"kind": "dont_stop"}
        pl["levels"] = pl["levels"][:2]
        pl["level_stack"] = pl["level_stack"][:2]
        pl["levels"][1]["lsc"] = {"kind": "metaepoch_limit", "limit": 1}
        pl["objective"] = {"kind": "sphere", "center": [(l + h) / 2 + 0.123 * (h - l) for l, h in pl["box"]], "scale": 1.0,
                           "offset": 0.0, "sign": -1.0 if pl["maximize"] else 1.0}
        pl["sprout"] = {"generator": {"kind": "best"}, "deme_filters": [],
                        "tree_filters": [{"kind": "level_limit", "limit": 2}, {"kind": "skip_same"}]}
        pl["gsc"] = {"kind": "metaepoch_limit", "limit": 60}
        pl["caps"]["metaepochs"] = 100
        pl["options"].pop("hibernation", None)
        for st in pl["stacks"]:
            st["layers"] = [x for x in st["layers"] if x["kind"] != "cutoff"]
        pl["faults"] = {}
    if seed % 12 == 7:
        pl = terraced_scenario(pl, random.Random(seed ^ 0x7E44))
    sp = pl["sprout"]
    if "generator" in sp and seed % 5 == 2:
        sp["deme_filters"].insert((seed // 5) % (len(sp["deme_filters"]) + 1), {"kind": "functional"})
    if "generator" in sp:
        if sp["generator"]["kind"] == "best" and r.random() < 0.5:
            sp["generator"] = {"kind": "nbc", "distance_factor": r.choice([0.5, 0.8, 1.0, 1.5]),
                               "truncation_factor": r.choice([0.7, 1.0])}
        for f in sp["deme_filters"]:
            if f["kind"] == "deme_limit":
                f["limit"] = r.choice([1, 1, 2, 3])
        if r.random() < 0.5 and not any(f["kind"] == "skip_same" for f in sp["tree_filters"]):
            sp["tree_filters"].insert(r.randint(0, len(sp["tree_filters"])), {"kind": "skip_same"})
    return pl


def local_method_scenario(pl, r, seed):
    """~12% of the plans: 3 levels, NBCGeneratorWithLocalMethod, middle-level demes that finish quickly while their
    leaves stay active, small level limit - candidates then also come from *inactive* parents and have to
    compete for the slots of a full last level."""
    if seed % 8 != 0 or len(pl.get("levels", [])) != 3:
        return
    minr = min(h - l for l, h in pl["box"])
    pl["levels"][1]["lsc"] = {"kind": "metaepoch_limit", "limit": r.choice([1, 1, 2, 3])}
    leaf = pl["levels"][2]
    if leaf["engine"] == "local":
        pl["levels"][2] = {"engine": "cma", "generations": r.choice([1, 2]), "sigma0": minr * 0.05,
                           "lsc": {"kind": "dont_stop"}}
    else:
        leaf["lsc"] = {"kind": r.choice(["dont_stop", "dont_stop", "metaepoch_limit"]), "limit": r.randint(3, 6)}
        if leaf["lsc"]["kind"] == "dont_stop":
            leaf["lsc"] = {"kind": "dont_stop"}
    dfs = []
    if r.random() < 0.5:
        dfs.append({"kind": "deme_limit", "limit": r.choice([1, 2])})
    pl["sprout"] = {"generator": {"kind": "nbc_local", "distance_factor": r.choice([0.8, 1.0, 1.5]),
                                  "truncation_factor": r.choice([0.7, 1.0])},
                    "deme_filters": dfs, "tree_filters": [{"kind": "level_limit", "limit": r.choice([1, 2, 2, 3])}]}
    pl["options"].pop("hibernation", None)
    if pl["gsc"]["kind"] != "metaepoch_limit":
        pl["gsc"] = {"kind": "metaepoch_limit", "limit": r.randint(6, 14)}
    else:
        pl["gsc"]["limit"] = max(pl["gsc"]["limit"], 6)


class C10Monitor(Monitor):
    prop = PROP

    def __init__(self, w):
        super().__init__(w)
        self.maximize = bool(w.plan["maximize"])
        self.offered = {}
        self.keep = []

    # ------------------------------------------------------------------ generators
    def on_generated(self, tree, gen, res):
        w = self.w
        mx = self.maximize
        name = type(gen).__name__
        w.probe("c10-generator-judged")
        levels = tree.levels
        if name in ("BestPerDeme", "NBC_Generator"):
            expected = [d for lv in levels[:-1] for d in lv if d._active]
            if {id(d) for d in expected} != {id(d) for d in res.keys()}:
                self.violate("generator-wrong-demes/" + name,
                             {"expected": [d.id for d in expected], "got": [d.id for d in res.keys()]})
        for d, c in res.items():
            if d._level >= len(levels) - 1:
                self.violate("candidates-from-leaf/" + name, {"deme": d.id})
                continue
            cur = flat(d)[-1] if flat(d) else []
            if d._active:
                if name == "NBCGeneratorWithLocalMethod" and d._level >= len(levels) - 2:
                    self.violate("local-method-offer-from-active-deme", {"deme": d.id})
                for ind in c.individuals:
                    if not any(ind is x for x in cur):
                        self.violate("candidate-not-in-current-population/" + name, {"deme": d.id})
                        break
                if name == "BestPerDeme":
                    w.probe("c10-bestperdeme-judged")
                    if len(c.individuals) != 1:
                        self.violate("bestperdeme-count", {"deme": d.id, "n": len(c.individuals)})
                    else:
                        b = c.individuals[0]
                        if any(strictly_better(x.fitness, b.fitness, mx) for x in cur):
                            self.violate("bestperdeme-not-best", {"deme": d.id, "offered": float(b.fitness)})
            else:
                if name != "NBCGeneratorWithLocalMethod":
                    self.violate("candidates-from-inactive-deme/" + name, {"deme": d.id})
                    continue
                w.probe("c10-local-method-offer-judged")
                self.offered[id(d)] = self.offered.get(id(d), 0) + 1
                self.keep.append(d)
                if self.offered[id(d)] > 1:
                    self.violate("local-method-offered-twice", {"deme": d.id})
                if d._level != len(levels) - 2:
                    self.violate("local-method-offer-wrong-level", {"deme": d.id, "level": d._level})
                allind = [i for g in flat(d) for i in g]
                if len(c.individuals) != 1 or not any(c.individuals[0] is x for x in allind) or any(
                        strictly_better(x.fitness, c.individuals[0].fitness, mx) for x in allind):
                    self.violate("local-method-offer-not-best", {"deme": d.id})

    # ------------------------------------------------------------------ filters
    def on_filtered(self, tree, ftap, before, res):
        w = self.w
        mx = self.maximize
        f = ftap.inner
        name = type(f).__name__
        w.probe("c10-filter-subset-judged")
        for d, c in res.items():
            if d not in before:
                self.violate("filter-added-deme/" + name, {"deme": d.id})
                continue
            inp = before[d][0]
            for ind in c.individuals:
                if not any(ind is x for x in inp):
                    self.violate("filter-added-candidate/" + name, {"deme": d.id})
                    break
            if len({id(x) for x in c.individuals}) != len(c.individuals):
                self.violate("filter-duplicated-candidate/" + name, {"deme": d.id})
        for d in before:
            if d not in res:
                # dropping a whole parent is a removal too; treat its kept list as empty
                pass
        kept_of = lambda d: (res[d].individuals if d in res else [])  # noqa: E731
        if name == "DemeLimit":
            for d, (inp, _) in before.items():
                kept = kept_of(d)
                want = min(int(f.limit), len(inp))
                if len(inp) > int(f.limit):
                    w.probe("c10-demelimit-chose")
                if len(kept) != want:
                    self.violate("demelimit-count", {"deme": d.id, "limit": int(f.limit), "available": len(inp),
                                                     "kept": len(kept)})
                dropped = [x for x in inp if not any(x is k for k in kept)]
                for x in dropped:
                    if any(strictly_better(x.fitness, k.fitness, mx) for k in kept):
                        self.violate("demelimit-dropped-better", {"deme": d.id, "maximize": mx})
                        break
        elif name == "LevelLimit":
            L = int(f.limit)
            for lvl in range(len(tree.levels) - 1):
                parents = [d for d in before if d._level == lvl]
                if not parents:
                    continue
                inp = [x for d in parents for x in before[d][0]]
                kept = [x for d in parents for x in kept_of(d)]
                active_below = sum(1 for d in tree.levels[lvl + 1] if d._active)
                free = max(L - active_below, 0)
                if not inp:
                    continue
                if len(parents) > 1 and sum(1 for d in parents if before[d][0]) > 1:
                    w.probe("c10-levellimit-several-parents")
                must_cut = active_below + len(inp) > L
                if must_cut:
                    w.probe("c10-levellimit-chose")
                    if mx:
                        w.probe("c10-levellimit-chose-maximize")
                if len(kept) > (free if must_cut else len(inp)):
                    self.violate("levellimit-kept-too-many", {"level": lvl, "kept": len(kept), "free": free})
                fits = [x.fitness for x in inp]
                distinct = len(set(fits)) == len(fits)
                if distinct:
                    want = min(free, len(inp))
                    if must_cut:
                        w.probe("c10-levellimit-distinct-exact")
                    if len(kept) != want:
                        self.violate("levellimit-count-with-distinct-fitness",
                                     {"level": lvl, "kept": len(kept), "free": free, "available": len(inp),
                                      "maximize": mx})
                elif must_cut:
                    w.probe("c10-levellimit-tie-at-cut")
                dropped = [x for x in inp if not any(x is k for k in kept)]
                done = False
                for x in dropped:
                    for k in kept:
                        if strictly_better(x.fitness, k.fitness, mx):
                            self.violate("levellimit-dropped-better/" + ("maximize" if mx else "minimize"),
                                         {"level": lvl, "dropped": float(x.fitness), "kept": float(k.fitness)})
                            done = True
                            break
                    if done:
                        break
        elif name == "SkipSameSprout":
            for d, (inp, _) in before.items():
                kept = kept_of(d)
                own = [c._sprout_seed.genome for c in d._children if c._sprout_seed is not None]
                for k in kept:
                    w.probe("c10-skipsame-kept-judged")
                    if any(gb(k.genome) == gb(s) for s in own):
                        self.violate("skipsame-let-through-equal-seed", {"deme": d.id})
                        break
                    kg = np.asarray(k.genome, dtype=float)
                    for s in own:
                        sg = np.asarray(s, dtype=float)
                        # numerically equal far inside numpy.isclose's tolerance (a tenth of it): no grey zone
                        if np.all(np.abs(kg - sg) <= 0.1 * (1e-8 + 1e-5 * np.minimum(np.abs(kg), np.abs(sg)))):
                            w.probe("c10-skipsame-near-equal-judged")
                            self.violate("skipsame-let-through-numerically-equal-seed",
                                         {"deme": d.id, "max_abs_difference": float(np.max(np.abs(kg - sg)))})
                            break
                dropped = [x for x in inp if not any(x is k for k in kept)]
                if not dropped:
                    continue
                tl = d._level + 1
                seeds = [c._sprout_seed.genome for c in tree.levels[tl] if c._sprout_seed is not None] if tl < len(tree.levels) else []
                for x in dropped:
                    w.probe("c10-skipsame-rejected")
                    xg = np.asarray(x.genome, dtype=float)
                    clearly_new = True
                    for s in seeds:
                        sg = np.asarray(s, dtype=float)
                        tol = 1e-8 + 1e-5 * np.abs(xg)
                        tol2 = 1e-8 + 1e-5 * np.abs(sg)
                        if not np.any(np.abs(xg - sg) > 10 * np.maximum(tol, tol2)):
                            clearly_new = False
                            break
                    if clearly_new:
                        self.violate("skipsame-rejected-new-candidate", {"deme": d.id, "n_seeds": len(seeds)})
                        break


MONITORS = [C10Monitor]


def nontrivial(w):
    p = w.probes
    return (p.get("c10-demelimit-chose", 0) + p.get("c10-levellimit-chose", 0) + p.get("c10-skipsame-rejected", 0)) > 0
