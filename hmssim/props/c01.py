"""C01 - the objective is never evaluated outside the declared box bounds."""
import numpy as np

from .. import plan as P
from ..sim import Monitor
from .common import all_demes, deme_cls, flat

PROP = "C01"
N_QUICK = 7000
N_THOROUGH = 150000
RULE = ("Plans: all engine mixes, boxes (symmetric integer, asymmetric, inexact decimal, tiny 1e-6, huge 1e6, far from "
        "the origin), both sprout factories and composed mechanisms, all GSCs / LSCs, entry points tree/hms/minimize; "
        "faults: budget exhaustion (engines fed +-inf), external stop signal, injected LSC verdicts.")
NONTRIVIAL_RULE = "objective invoked >= 1 time after the root's construction and >= 1 boundary scan of histories and seeds"
EXPECTED_PROBES = ["c01-invocations-checked", "c01-genomes-scanned", "c01-seeds-checked", "c01-on-face",
                   "c01-minimize-x-checked", "c01-local-probe-checked", "c01-cma-checked"]
ASSUMPTIONS = ["the box of a level is the bounds of that level's innermost FunctionProblem"]

PROFILE = P.profile(entry_w={"tree": 8, "hms": 1, "minimize": 1},
                    box_kinds={"sym": 2, "asym": 2, "decimal": 3, "tiny": 1, "huge": 1, "far": 2},
                    leaf_engines={"local": 3, "cma": 4})


def gen(seed, tier):
    pl = P.gen_plan(seed, PROFILE, PROP)
    if "levels" in pl:
        import random as _rm

        rm = _rm.Random(seed ^ 0x10CA1)
        for l in pl["levels"]:
            if l["engine"] == "local":
                # scipy matches method names case-insensitively
                l["method"] = rm.choice(["L-BFGS-B", "L-BFGS-B", "l-bfgs-b", "L-bfgs-b"])
    if "levels" in pl and seed % 7 == 3 and not pl.get("bounds_int") and not pl.get("stack_objectives"):
        # a user wrapper that declares a region of interest inside the wrapped problem's (larger) box
        for st in pl["stacks"]:
            if not any(l.get("pre_evals") for l in st["layers"]):
                st["layers"].insert(rm.randrange(len(st["layers"]) + 1), {"kind": "subbox"})
        pl.pop("bounds_form", None)
    return pl


class C01Monitor(Monitor):
    prop = PROP

    def __init__(self, w):
        super().__init__(w)
        self.scanned = {}  # id(deme) -> number of generations scanned
        self.seed_seen = set()

    def _box(self, stack_id):
        if stack_id >= len(self.w.stacks):  # minimize() called fun before it built the tree
            b = np.asarray(self.w.plan["box"], dtype=float)
            return b[:, 0], b[:, 1]
        b = self.w.stacks[stack_id]["fnp"]._bounds
        sts = self.w.plan.get("stacks") or []
        if stack_id < len(sts) and any(l["kind"] == "subbox" for l in sts[stack_id]["layers"]):
            b = self.w.plan["box"]  # the box the user's wrapper declares (the innermost problem's is larger)
            self.w.probe("c01-declared-sub-box-judged")
        b = np.asarray(b, dtype=float)
        return b[:, 0], b[:, 1]

    def _inside(self, x, lo, hi):
        x = np.asarray(x, dtype=float)
        return x.shape == lo.shape and bool(np.all(x >= lo) and np.all(x <= hi))

    def on_invocation(self, otap, x, v, req):
        w = self.w
        lo, hi = self._box(otap.stack_id)
        w.probe("c01-invocations-checked")
        cls = deme_cls(w, req.deme) if req is not None else "?"
        if cls == "LocalDeme":
            w.probe("c01-local-probe-checked")
        elif cls == "CMADeme":
            w.probe("c01-cma-checked")
        xa = np.asarray(x, dtype=float)
        if not self._inside(xa, lo, hi):
            self.violate("invoked-outside/" + cls, {"x": xa.tolist(), "lower": lo.tolist(), "upper": hi.tolist(),
                                                    "excess": np.maximum(lo - xa, xa - hi).max().item()
                                                    if xa.shape == lo.shape else None})
        elif np.any(xa == lo) or np.any(xa == hi):
            w.probe("c01-on-face")

    def _scan(self, tree):
        w = self.w
        for d in all_demes(tree):
            lo, hi = self._box(w.level_stack[d._level])
            gens = flat(d)
            start = self.scanned.get(id(d), 0)
            for gi in range(start, len(gens)):
                for ind in gens[gi]:
                    w.probe("c01-genomes-scanned")
                    if not self._inside(ind.genome, lo, hi):
                        self.violate("stored-outside/" + type(d).__name__,
                                     {"deme": d.id, "generation": gi, "genome": np.asarray(ind.genome).tolist(),
                                      "lower": lo.tolist(), "upper": hi.tolist()})
            self.scanned[id(d)] = len(gens)
            s = d._sprout_seed
            if s is not None and id(d) not in self.seed_seen:
                self.seed_seen.add(id(d))
                w.probe("c01-seeds-checked")
                if not self._inside(s.genome, lo, hi):
                    self.violate("seed-outside/" + type(d).__name__, {"deme": d.id, "seed": np.asarray(s.genome).tolist()})

    def on_boundary(self, tree):
        self._scan(tree)

    def on_seeds(self, tree, res):
        for d, c in res.items():
            tl = d._level + 1
            if tl >= len(tree.levels):
                continue
            lo, hi = self._box(self.w.level_stack[tl])
            for ind in c.individuals:
                self.w.probe("c01-seeds-checked")
                if not self._inside(ind.genome, lo, hi):
                    self.violate("seed-outside/get_seeds", {"parent": d.id, "seed": np.asarray(ind.genome).tolist()})

    def on_end(self, tree, outcome):
        if tree is not None:
            self._scan(tree)
        if self.w.plan.get("entry") == "minimize" and outcome == "returned":
            lo, hi = self._box(0)
            self.w.probe("c01-minimize-x-checked")
            if not self._inside(self.w.result.x, lo, hi):
                self.violate("minimize-x-outside", {"x": np.asarray(self.w.result.x).tolist()})


MONITORS = [C01Monitor]


def nontrivial(w):
    return w.probes.get("c01-invocations-checked", 0) > 0 and w.probes.get("c01-genomes-scanned", 0) > 0 and w.steps_done > 0
