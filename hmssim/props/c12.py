"""C12 - elitist engines never lose ground; population size is constant."""
from .. import plan as P
from ..sim import Monitor
from .common import all_demes, flat, not_worse, strictly_better

PROP = "C12"
N_QUICK = 8000
N_THOROUGH = 200000
RULE = ("Plans: SEA variants with every elite count from 1 to the population size, DE (+-dither), SHADE, CMA-ES, MWEA, "
        "LHS / Sobol / custom; plateau / tie / constant objectives over-weighted; both directions; generations per "
        "metaepoch 1-4; faults: budget exhaustion (sentinels count as worst), stop signal, injected LSC verdicts.")
NONTRIVIAL_RULE = ">= 1 consecutive generation pair of an elitist engine judged and >= 1 generation size judged"
EXPECTED_PROBES = ["c12-elitist-pairs", "c12-sorted-vector-pairs", "c12-sizes-judged", "c12-tie-at-best",
                   "c12-sentinel-in-population", "c12-cma-lambda-judged", "c12-inner-pairs"]
ASSUMPTIONS = ["NaN never occurs (objectives are NaN-free); +-inf sentinels are ordinary worst values"]

PROFILE = P.profile(gens=[1, 2, 2, 3, 4], p_no_elite=0.1, p_cutoff=0.3, entry_w={"tree": 9, "hms": 1, "minimize": 0},
                    root_engines={"ea": 6, "de": 3, "shade": 3, "lhs": 0.5, "sobol": 0.5, "custom": 0.3},
                    leaf_engines={"ea": 4, "de": 3, "shade": 3, "cma": 3, "local": 0.3},
                    objective_kinds=["sphere", "ellipsoid", "rastrigin", "funnel", "rosenbrock", "linear", "stair", "stair",
                                     "constant", "discont", "big", "abszero"],
                    metaepochs=[2, 8])


def gen(seed, tier):
    pl = P.gen_plan(seed, PROFILE, PROP)
    crossover_only(pl, seed)
    whole_population_generator(pl, seed)
    tiny_sea_leaves(pl, seed)
    return pl


def whole_population_generator(pl, seed):
    """A user-defined generator that offers a deme's whole current population (the list object itself), followed by
    DemeLimit: the built-in filters must not modify what they are handed."""
    if seed % 7 != 2 or "levels" not in pl or len(pl["levels"]) < 2:
        return False
    ll = 2
    sp = pl["sprout"]
    if "factory" in sp:
        ll = int(sp.get("level_limit", 2))
    else:
        for f in sp["tree_filters"]:
            if f["kind"] == "level_limit":
                ll = int(f["limit"])
    pl["sprout"] = {"generator": {"kind": "whole_population"},
                    "deme_filters": [{"kind": "deme_limit", "limit": 1 + seed % 3}],
                    "tree_filters": [{"kind": "level_limit", "limit": ll}]}
    return True


def tiny_sea_leaves(pl, seed):
    """(1+1)- / (2+1)-style SEA leaves: population sizes 1-3 are legal for the SEA variants."""
    if seed % 9 != 4 or "levels" not in pl or len(pl["levels"]) < 2:
        return
    l = pl["levels"][-1]
    if l["engine"] == "ea" and l.get("ea") != "MWEA":
        l["pop_size"] = 1 + (seed // 9) % 3
        l["k_elites"] = min(int(l.get("k_elites", 1)), l["pop_size"]) or 1


def crossover_only(pl, seed):
    """A crossover-only GA is legal: p_mutation = 0 for the variants that recombine (the mutation operator is then
    the stage that evaluates the recombined children)."""
    if seed % 6 != 0:
        return
    for l in pl.get("levels", []):
        if l["engine"] == "ea" and l.get("ea") in ("SEAWithCrossover", "GAStyleSEA"):
            l["p_mutation"] = 0.0
            l["p_crossover"] = max(0.7, l.get("p_crossover") or 0.7)


class C12Monitor(Monitor):
    prop = PROP

    def __init__(self, w):
        super().__init__(w)
        self.maximize = bool(w.plan["maximize"])
        self.judged = {}

    def _best(self, gen):
        b = None
        for i in gen:
            if b is None or strictly_better(i.fitness, b, self.maximize):
                b = i.fitness
        return b

    def _judge(self, tree):
        w = self.w
        mx = self.maximize
        for d in all_demes(tree):
            cls = type(d).__name__
            gens = flat(d)
            start = self.judged.get(id(d), 0)
            lspec = w.plan["levels"][d._level] if "levels" in w.plan else None
            if cls == "LocalDeme":
                continue
            if lspec is not None and "pop_size" in lspec:
                size = int(lspec["pop_size"])
            elif cls == "CMADeme":
                size = int(d._cma_es.popsize)
                w.probe("c12-cma-lambda-judged")
            else:
                size = len(gens[0]) if gens else None
            inner = set()
            k = 0
            for me in d._history:
                for j in range(len(me)):
                    if j > 0:
                        inner.add(k)
                    k += 1
            for gi in range(start, len(gens)):
                g = gens[gi]
                w.probe("c12-sizes-judged")
                if size is not None and len(g) != size:
                    self.violate("population-size/" + cls, {"deme": d.id, "generation": gi, "size": len(g),
                                                            "configured": size})
                if any(abs(i.fitness) == float("inf") for i in g):
                    w.probe("c12-sentinel-in-population")
                if gi == 0:
                    continue
                elitist = cls in ("DEDeme", "SHADEDeme") or (
                    cls == "EADeme" and lspec is not None and lspec.get("ea") != "MWEA" and int(lspec.get("k_elites", 1)) >= 1)
                if not elitist:
                    continue
                p = gens[gi - 1]
                bp, bg = self._best(p), self._best(g)
                w.probe("c12-elitist-pairs")
                if gi in inner:
                    w.probe("c12-inner-pairs")
                if sum(1 for i in p if i.fitness == bp) > 1:
                    w.probe("c12-tie-at-best")
                if not not_worse(bg, bp, mx):
                    self.violate("best-got-worse/" + cls + ("/" + lspec["ea"] if cls == "EADeme" else ""),
                                 {"deme": d.id, "generation": gi, "before": float(bp), "after": float(bg),
                                  "inside_metaepoch": gi in inner})
                if cls in ("DEDeme", "SHADEDeme") and len(p) == len(g):
                    sp = sorted((i.fitness for i in p), reverse=mx)
                    sg = sorted((i.fitness for i in g), reverse=mx)
                    w.probe("c12-sorted-vector-pairs")
                    for kk, (a, b) in enumerate(zip(sp, sg)):
                        if not not_worse(b, a, mx):
                            self.violate("kth-best-got-worse/" + cls, {"deme": d.id, "generation": gi, "k": kk,
                                                                       "before": float(a), "after": float(b)})
                            break
            self.judged[id(d)] = len(gens)

    def on_boundary(self, tree):
        self._judge(tree)

    def on_end(self, tree, outcome):
        if tree is not None and outcome == "returned":
            self._judge(tree)


MONITORS = [C12Monitor]


def nontrivial(w):
    return w.probes.get("c12-elitist-pairs", 0) > 0 and w.probes.get("c12-sizes-judged", 0) > 0
