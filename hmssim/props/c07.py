"""C07 - the demes always form a well-formed tree; sprout seeds come from the parent."""
from .. import plan as P
import random as _random

from ..sim import Monitor
from .common import terraced_scenario
from .common import all_demes, fb, flat, gb

PROP = "C07"
N_QUICK = 7000
N_THOROUGH = 200000
RULE = ("Plans: 1-3 levels with any engine per level incl. a custom deme class registered through "
        "config_class_to_deme_class, both sprout factories and user-composed mechanisms (incl. the local-method "
        "generator), hibernation on/off, LSCs that stop parents, stop-signal and LSC-verdict faults.")
NONTRIVIAL_RULE = ">= 1 sprouting round with >= 1 new deme whose seed provenance was judged, and >= 2 boundaries structurally judged"
EXPECTED_PROBES = ["c07-structure-judged", "c07-seeds-provenance-judged", "c07-new-child-judged", "c07-seed-in-child-population",
                   "c07-custom-deme-seen", "c07-three-levels-populated", "c07-local-method-seed-judged", "c07-derived-custom-config-judged", "c07-derived-of-custom-config-judged"]
ASSUMPTIONS = ["only new config classes are registered in config_class_to_deme_class (as documented); overriding a built-in mapping is not exercised"]

CLS = {"ea": "EADeme", "de": "DEDeme", "shade": "SHADEDeme", "cma": "CMADeme", "local": "LocalDeme", "lhs": "LHSDeme",
       "sobol": "SobolDeme", "custom": "CustomDeme"}

PROFILE = P.profile(levels_w={1: 1, 2: 5, 3: 5}, root_engines={"custom": 1.5}, mid_engines={"custom": 1},
                    leaf_engines={"custom": 1, "local": 3}, entry_w={"tree": 9, "hms": 1, "minimize": 0.7},
                    p_no_level_limit=0.2)


def gen(seed, tier):
    pl = P.gen_plan(seed, PROFILE, PROP)
    # a registered custom config class *derived from a built-in config* (with its own deme class)
    if "levels" in pl and seed % 4 == 0:
        for l in pl["levels"]:
            if l["engine"] == "ea":
                l["custom_derived"] = "same_name" if seed % 8 == 0 else True
        if any(l.get("custom_derived") for l in pl["levels"]):
            pl["entry"] = "tree"  # hms() has no config_class_to_deme_class parameter
    if "levels" in pl and seed % 9 == 4:
        pl = terraced_scenario(pl, _random.Random(seed ^ 0x7E44))
    # two registered custom config classes, one derived from the other; some levels use the derived one
    if "levels" in pl and seed % 5 in (1, 2):
        cl = [l for l in pl["levels"] if l["engine"] == "custom"]
        for i, l in enumerate(cl):
            if seed % 5 == 1 or i == len(cl) - 1:
                l["custom_fine"] = True
    # the same custom config class mapped to ANOTHER deme class than an earlier tree of this process used
    if "levels" in pl and any(l["engine"] == "custom" for l in pl["levels"]) and seed % 3 == 0:
        pl["custom_variant"] = "B"
        pl["preceded_by"] = [{"custom_variant": "A", "faults": {}}]
    return pl


class C07Monitor(Monitor):
    prop = PROP

    def __init__(self, w):
        super().__init__(w)
        self.known = set()
        self.pending = None
        self.keep = []

    def _expected_cls(self, level):
        if "levels" in self.w.plan:
            if self.w.plan["levels"][level].get("custom_derived"):
                self.w.probe("c07-derived-custom-config-judged")
                return "CustomEADeme"
            if self.w.plan["levels"][level].get("custom_fine"):
                self.w.probe("c07-derived-of-custom-config-judged")
                return "CustomFineDeme"
            if self.w.plan["levels"][level]["engine"] == "custom" and self.w.plan.get("custom_variant") == "B":
                self.w.probe("c07-custom-class-remapped-judged")
                return "CustomDemeB"
            return CLS[self.w.plan["levels"][level]["engine"]]
        return ["EADeme", "CMADeme"][level]

    def _structure(self, tree, where):
        w = self.w
        w.probe("c07-structure-judged")
        levels = tree.levels
        ncfg = len(tree.config.levels)
        if len(levels) != ncfg:
            self.violate("height", {"levels": len(levels), "configured": ncfg})
            return
        if len(levels[0]) != 1:
            self.violate("root-count", {"n": len(levels[0])})
            return
        root = levels[0][0]
        if root._id != "root" or root._level != 0 or root._sprout_seed is not None:
            self.violate("root-malformed", {"id": root._id, "level": root._level})
        ids = {}
        parents = {}
        for li, lv in enumerate(levels):
            for d in lv:
                for c in d._children:
                    parents.setdefault(id(c), []).append(d)
        for li, lv in enumerate(levels):
            for d in lv:
                cls = type(d).__name__
                if d._id in ids:
                    self.violate("duplicate-id", {"id": d._id, "where": where})
                ids[d._id] = d
                if d._level != li:
                    self.violate("level-attribute", {"deme": d._id, "level": d._level, "in_level": li})
                if cls != self._expected_cls(li):
                    self.violate("wrong-engine-class", {"deme": d._id, "class": cls, "expected": self._expected_cls(li)})
                if cls in ("CustomDeme", "CustomDemeB"):
                    w.probe("c07-custom-deme-seen")
                if not (0 <= d._started_at <= tree.metaepoch_count):
                    self.violate("started-at-range", {"deme": d._id, "started_at": d._started_at,
                                                      "metaepoch_count": tree.metaepoch_count})
                ps = parents.get(id(d), [])
                if li == 0:
                    if ps:
                        self.violate("root-has-parent", {})
                else:
                    if len(ps) != 1:
                        self.violate("parent-count", {"deme": d._id, "parents": [p._id for p in ps], "where": where})
                    else:
                        p = ps[0]
                        if p._level != li - 1 or not any(p is x for x in levels[li - 1]):
                            self.violate("parent-level", {"deme": d._id, "parent": p._id, "parent_level": p._level})
                        if d._started_at < p._started_at:
                            self.violate("started-before-parent", {"deme": d._id, "started_at": d._started_at,
                                                                   "parent_started_at": p._started_at})
                        if p._children.count(d) != 1:
                            self.violate("listed-twice", {"deme": d._id})
                    if d._sprout_seed is None:
                        self.violate("non-root-without-seed", {"deme": d._id})
                for c in d._children:
                    if li + 1 >= len(levels) or not any(c is x for x in levels[li + 1]):
                        self.violate("child-not-in-next-level", {"parent": d._id, "child": c._id})
                if li == len(levels) - 1 and d._children:
                    self.violate("leaf-has-children", {"deme": d._id})
        if len(levels) == 3 and levels[2]:
            w.probe("c07-three-levels-populated")

    def on_tree(self, tree):
        self.known = {id(d) for d in all_demes(tree)}
        self._structure(tree, "constructed")

    def on_boundary(self, tree):
        self._structure(tree, "boundary")

    def on_get_seeds_begin(self, tree):
        self.pending = None

    def on_seeds(self, tree, res):
        w = self.w
        self.pending = {}
        local_gen = w.plan.get("sprout", {}).get("generator", {}).get("kind") == "nbc_local"
        for d, c in res.items():
            self.pending[id(d)] = (d, list(c.individuals))
            if not c.individuals:
                self.violate("empty-seed-list-returned", {"parent": d._id})
            if local_gen and not d._active:
                pool = [i for g in flat(d) for i in g]
                w.probe("c07-local-method-seed-judged")
            else:
                pool = list(flat(d)[-1]) if flat(d) else []
            keys = {(gb(i.genome), fb(i.fitness)) for i in pool}
            for s in c.individuals:
                w.probe("c07-seeds-provenance-judged")
                if not any(s is i for i in pool) and (gb(s.genome), fb(s.fitness)) not in keys:
                    self.violate("seed-not-from-parent-population", {"parent": d._id, "active": bool(d._active)})

    def on_sprout_end(self, tree):
        w = self.w
        new = [d for d in all_demes(tree) if id(d) not in self.known]
        self.keep.extend(new)
        by_parent = {}
        for d in tree.levels[0] + [x for lv in tree.levels[1:] for x in lv]:
            for c in d._children:
                if id(c) not in self.known:
                    by_parent.setdefault(id(d), (d, []))[1].append(c)
        if self.pending is not None:
            for k, (p, seeds) in self.pending.items():
                kids = by_parent.get(k, (p, []))[1]
                if len(kids) != len(seeds):
                    self.violate("children-vs-seeds-count", {"parent": p._id, "children": len(kids), "seeds": len(seeds)})
                for c, s in zip(kids, seeds):
                    w.probe("c07-new-child-judged")
                    cs = c._sprout_seed
                    if cs is None or not (cs is s or (gb(cs.genome) == gb(s.genome) and fb(cs.fitness) == fb(s.fitness))):
                        self.violate("child-seed-differs-from-returned-seed", {"child": c._id, "parent": p._id})
                    if c._started_at != tree.metaepoch_count:
                        self.violate("child-started-at", {"child": c._id, "started_at": c._started_at,
                                                          "metaepoch_count": tree.metaepoch_count})
                    cls = type(c).__name__
                    if cls in ("EADeme", "CustomEADeme", "DEDeme", "SHADEDeme") and cs is not None:
                        first = flat(c)[0] if flat(c) else []
                        w.probe("c07-seed-in-child-population")
                        if not any(gb(i.genome) == gb(cs.genome) for i in first):
                            self.violate("seed-not-in-child-population/" + cls, {"child": c._id})
            for k, (p, kids) in by_parent.items():
                if k not in self.pending:
                    self.violate("child-without-returned-seed", {"parent": p._id, "children": [c._id for c in kids]})
        for d in new:
            self.known.add(id(d))
        self._structure(tree, "sprout-end")
        self.pending = None

    def on_end(self, tree, outcome):
        if tree is not None and (outcome == "returned" or str(outcome).startswith("capped")):
            self._structure(tree, "end")


MONITORS = [C07Monitor]


def nontrivial(w):
    return w.probes.get("c07-new-child-judged", 0) > 0 and w.probes.get("c07-structure-judged", 0) >= 2
