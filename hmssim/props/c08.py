"""C08 - the level limit on simultaneously active demes is never exceeded."""
from .. import plan as P
from ..sim import Monitor
from .common import all_demes

PROP = "C08"
N_QUICK = 8000
N_THOROUGH = 200000
RULE = ("Plans: always a LevelLimit(L) in the mechanism (both factories and composed chains in any order), L from 1, "
        "2-3 level trees with several parents per level, DemeLimit(k>1), NBC generators (several candidates per "
        "parent), plateau objectives (ties at the cut), both directions, LSCs and injected LSC verdicts that free "
        "slots one step before / in the same step as a round.")
NONTRIVIAL_RULE = ">= 1 sprouting round in which the level was full or the limit had to cut candidates, census judged at every event"
EXPECTED_PROBES = ["c08-census-judged", "c08-rounds-judged", "c08-level-full-at-round", "c08-limit-had-to-choose",
                   "c08-slot-freed-and-refilled", "c08-several-parents-on-level", "c08-census-during-child-construction"]
ASSUMPTIONS = ["L is read from the plan's LevelLimit filter (both factories configure one)"]

PROFILE = P.profile(levels_w={1: 0, 2: 5, 3: 5}, level_limit=[1, 3], p_no_level_limit=0.0, p_lsc_inject=0.5,
                    lsc_w={"dont_stop": 2, "metaepoch_limit": 4, "fitness_steadiness": 2, "all_children_stopped": 1,
                           "dont_run": 1.5, "eval_budget": 2},
                    sprout_w={"nbc_factory": 2, "simple_factory": 2, "composed": 6},
                    objective_kinds=["sphere", "rastrigin", "funnel", "funnel", "stair", "stair", "constant", "linear",
                                     "discont", "abszero"],
                    entry_w={"tree": 9, "hms": 1, "minimize": 0.5}, metaepochs=[3, 14])


def gen(seed, tier):
    pl = P.gen_plan(seed, PROFILE, PROP)
    import random as _r

    from .c10 import local_method_scenario

    local_method_scenario(pl, _r.Random(seed ^ 0xC10), seed)
    if "levels" in pl and len(pl["levels"]) == 3 and seed % 6 == 1:
        # every level has its own problem, and the directions differ (root minimises f, a lower level maximises -f)
        import copy as _c

        base = pl["stacks"][pl["level_stack"][0]]
        pl["stacks"] = [_c.deepcopy(base) for _ in range(3)]
        pl["level_stack"] = [0, 1, 2]
        if pl["gsc"]["kind"] == "precision":
            pl["gsc"]["stack"] = 0
        dirs = [bool(pl["maximize"]), not pl["maximize"], bool((seed // 6) % 2)]
        objs = []
        for si in range(3):
            pl["stacks"][si]["maximize"] = dirs[si]
            o = _c.deepcopy(pl["objective"])
            if dirs[si] != bool(pl["maximize"]):
                o["sign"] = -o.get("sign", 1.0)
            objs.append(o)
        pl["stack_objectives"] = objs
        pl["mixed_directions"] = True
    sp = pl.get("sprout")
    if sp and "generator" in sp and len(pl["levels"]) == 3 and seed % 6 == 4:
        # a user generator that lists the parents most promising first / shuffled: parents of different levels are
        # interleaved in the candidate dict
        sp["generator"] = {"kind": "promising_first"}
        sp["deme_filters"] = [f for f in sp["deme_filters"] if f["kind"] not in ("nbc_far_enough", "deme_limit")]
        for f in sp["deme_filters"]:
            if f["kind"] == "far_enough":
                f["min_distance"] = min(f["min_distance"], 0.02 * min(h - l for l, h in pl["box"]))
        pl["options"].pop("hibernation", None)
    if sp and sp.get("factory") == "nbc" and seed % 2 == 0:
        sp["positional"] = True
    if sp and "generator" in sp and seed % 5 == 2:
        # a user-defined filter written in functional style (returns a new dict with new candidate objects)
        sp["deme_filters"].insert((seed // 5) % (len(sp["deme_filters"]) + 1), {"kind": "functional"})
    if sp and "generator" in sp:
        # make several candidates per parent likely: NBC generator, DemeLimit(k>1) or none
        import random

        r = random.Random(seed ^ 0xC08)
        if r.random() < 0.6 and sp["generator"]["kind"] == "best":
            sp["generator"] = {"kind": "nbc", "distance_factor": r.choice([0.8, 1.0, 1.5]), "truncation_factor": r.choice([0.7, 1.0])}
        for f in sp["deme_filters"]:
            if f["kind"] == "deme_limit" and r.random() < 0.6:
                f["limit"] = r.choice([2, 3, 5])
    return pl


def limit_of(plan):
    sp = plan.get("sprout")
    if sp is None:
        return 4  # minimize(): get_NBC_sprout() default
    if "factory" in sp:
        return int(sp["level_limit"])
    for f in sp["tree_filters"]:
        if f["kind"] == "level_limit":
            return int(f["limit"])
    return None


class C08Monitor(Monitor):
    prop = PROP

    def __init__(self, w):
        super().__init__(w)
        self.L = limit_of(w.plan)
        self.round_begin = None
        self.freed_step = {}
        self.reported = False

    def _census(self, where):
        w = self.w
        tree = w.tree
        if self.L is None or tree is None or not w.tree_ready:
            return
        w.probe("c08-census-judged")
        for li in range(1, len(tree.levels)):
            n = 0
            for d in tree.levels[li]:
                if d._active:
                    n += 1
            if n > self.L and not self.reported:
                self.reported = True
                self.violate("census-exceeded", {"level": li, "active": n, "limit": self.L, "where": where,
                                                 "phase": w.phase})

    def on_request(self, req):
        if self.w.phase == "sprout":
            self.w.probe("c08-census-during-child-construction")
        self._census("request")

    def on_consult(self, tree, site, deme, raw, verdict):
        self._census("consult")

    def on_lsc(self, deme, raw, verdict):
        if verdict:
            self.freed_step[deme._level] = self.w.step

    def on_sprout_begin(self, tree):
        if self.w.plan.get("mixed_directions"):
            self.w.probe("c08-mixed-directions-round")
        self._census("sprout-begin")
        self.round_begin = {"active": [sum(1 for d in lv if d._active) for lv in tree.levels],
                            "ids": {id(d) for d in all_demes(tree)}}
        for li in range(len(tree.levels) - 1):
            if sum(1 for d in tree.levels[li] if d._active) > 1:
                self.w.probe("c08-several-parents-on-level")

    def on_filtered(self, tree, ftap, before, res):
        if type(ftap.inner).__name__ == "LevelLimit":
            nb = sum(len(v[0]) for v in before.values())
            na = sum(len(c.individuals) for c in res.values())
            if na < nb:
                self.w.probe("c08-limit-had-to-choose")

    def on_sprout_end(self, tree):
        w = self.w
        if self.L is None or self.round_begin is None:
            return
        w.probe("c08-rounds-judged")
        rb = self.round_begin
        for li in range(1, len(tree.levels)):
            created = sum(1 for d in tree.levels[li] if id(d) not in rb["ids"])
            free = self.L - rb["active"][li]
            if rb["active"][li] >= self.L:
                w.probe("c08-level-full-at-round")
            if created > max(free, 0):
                self.violate("round-created-too-many", {"level": li, "created": created, "limit": self.L,
                                                        "active_before": rb["active"][li]})
            if created and self.freed_step.get(li) in (w.step, w.step - 1) and rb["active"][li] + created >= self.L:
                w.probe("c08-slot-freed-and-refilled")
        self._census("sprout-end")
        self.round_begin = None

    def on_end(self, tree, outcome):
        self._census("end")


MONITORS = [C08Monitor]


def nontrivial(w):
    return w.probes.get("c08-rounds-judged", 0) > 0 and (w.probes.get("c08-level-full-at-round", 0) > 0
                                                        or w.probes.get("c08-limit-had-to-choose", 0) > 0)
