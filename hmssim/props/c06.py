"""C06 - deme lifecycle: one metaepoch per step while active; stopping is final."""
import hashlib

from .. import plan as P
from ..sim import Monitor
from .common import all_demes, fb, flat, gb

PROP = "C06"
N_QUICK = 8000
N_THOROUGH = 200000
RULE = ("Plans: every LSC (metaepoch limit, fitness steadiness, all children stopped, DontStop, DontRun, user-defined "
        "evaluation-budget LSC) on every level, injected LSC verdicts at arbitrary (deme, metaepoch), external stop "
        "signals, hibernation on/off, CMA-ES with constant / plateau objectives and tiny sigma0 (self-termination), "
        "one-shot local demes, custom deme classes.")
NONTRIVIAL_RULE = ">= 1 step judged with >= 1 deme turning inactive and its frozen state re-checked at a later event"
EXPECTED_PROBES = ["c06-steps-judged", "c06-stopped-by-lsc", "c06-stopped-by-gsc", "c06-stopped-by-engine",
                   "c06-stopped-by-injected-lsc", "c06-frozen-rechecked", "c06-fresh-deme-waited",
                   "c06-hibernating-skipped", "c06-cma-self-stop", "c06-survivor-judged", "c06-lsc-verdict-vs-definition", "c06-configs-reused"]
ASSUMPTIONS = ["CMAEvolutionStrategy.stop() is queried by the monitor only for demes that are already inactive"]

PROFILE = P.profile(p_lsc_inject=0.5, p_stop_signal=0.25, p_hibernation=0.35,
                    lsc_w={"dont_stop": 2, "metaepoch_limit": 3, "fitness_steadiness": 3, "all_children_stopped": 2,
                           "dont_run": 1, "eval_budget": 2},
                    leaf_engines={"cma": 5, "local": 3, "custom": 1},
                    objective_kinds=["sphere", "ellipsoid", "rastrigin", "funnel", "rosenbrock", "linear", "stair",
                                     "constant", "constant", "discont", "big", "abszero"],
                    entry_w={"tree": 9, "hms": 1, "minimize": 0.5})


def gen(seed, tier):
    pl = P.gen_plan(seed, PROFILE, PROP)
    # injected verdicts aimed at demes that exist: low ordinals, early metaepochs
    for l in pl.get("levels", []):
        if l["engine"] == "local" and seed % 3 == 0:
            l["maxiter"] = [1, 2, 3][(seed // 3) % 3]
    if pl.get("entry") in ("tree", "steps") and seed % 6 == 4:
        # the user calls run_metaepoch() and run_sprout() himself (the tree's metaepoch counter stays where it is)
        pl["entry"] = "phases"
        pl["phase_rounds"] = 3 + seed % 6
        pl["faults"] = {k: v for k, v in pl.get("faults", {}).items() if k == "lsc_inject"}
    if "levels" in pl and seed % 5 == 0:
        pl["reuse_configs"] = True
    f = pl.get("faults", {})
    if "lsc_inject" in f:
        import random

        r = random.Random(seed ^ 0x5A5A)
        f["lsc_inject"] = [[r.choice([0, 0, 1, 1, 2, 3, 4]), r.randint(1, 4)] for _ in f["lsc_inject"]]
    return pl


def hist_digest(d):
    h = hashlib.sha256()
    for me in d._history:
        h.update(b"|")
        for g in me:
            h.update(b";")
            for i in g:
                h.update(gb(i.genome))
                h.update(fb(i.fitness))
    return h.digest()


class C06Monitor(Monitor):
    prop = PROP

    def __init__(self, w):
        super().__init__(w)
        self.begin = None
        self.frozen = {}  # id(deme) -> dict(obj, digest, n_evals, n_req)
        self.lsc_true = {}  # id(deme) -> True within the current step
        self.gsc_true = {}
        self.lsc_consulted = {}
        self.gsc_at_lsc = {}
        self.born = {}  # id(deme) -> step in which it was created
        self.hib_opt = bool(w.plan.get("options", {}).get("hibernation")) if "options" in w.plan else False
        self.req_count = {}
        self.last_req = 0

    def _absorb(self):
        for r in self.w.requests[self.last_req:]:
            self.req_count[r.deme] = self.req_count.get(r.deme, 0) + 1
        self.last_req = len(self.w.requests)

    def on_tree(self, tree):
        for d in all_demes(tree):
            self.born[id(d)] = 0

    def on_step_begin(self, tree):
        self.lsc_true = {}
        self.gsc_true = {}
        self.lsc_consulted = {}
        self.gsc_at_lsc = {}
        b = {}
        for d in all_demes(tree):
            b[id(d)] = {"obj": d, "active": bool(d._active), "hib": bool(d._hibernating and self.hib_opt),
                        "me": len(d._history)}
        self.begin = b

    def _reference_lsc(self, deme):
        """The level's shipped LSC recomputed from its definition and the deme's public state."""
        import numpy as np

        w = self.w
        if "levels" in w.plan:
            spec = w.plan["levels"][deme._level]["lsc"]
        else:  # minimize(): DontStop for the root, FitnessSteadiness() for the CMA level
            spec = {"kind": "dont_stop"} if deme._level == 0 else {"kind": "fitness_steadiness", "max_deviation": 0.001,
                                                                    "n_metaepochs": 5}
        k = spec["kind"]
        me = len(deme._history) - 1
        if k == "metaepoch_limit":
            return me >= spec["limit"]
        if k == "fitness_steadiness":
            n = int(spec["n_metaepochs"])
            if n > me:
                return False
            avg = [np.mean([i.fitness for g in deme._history[j] for i in g]) for j in range(-n, 0)]
            return bool(np.mean(avg) - np.min(avg) <= spec["max_deviation"])
        if k == "all_children_stopped":
            return bool(deme._children) and all(not c._active for c in deme._children)
        if k == "dont_stop":
            return False
        if k == "dont_run":
            return True
        if k == "eval_budget":
            return deme.n_evaluations >= spec["n"]
        return None

    def on_lsc(self, deme, raw, verdict):
        ref = self._reference_lsc(deme)
        if ref is not None:
            self.w.probe("c06-lsc-verdict-vs-definition")
            if bool(ref) != bool(raw):
                kind = (self.w.plan["levels"][deme._level]["lsc"]["kind"] if "levels" in self.w.plan else "minimize")
                self.violate("lsc-verdict-differs-from-definition/" + kind,
                             {"deme": deme.id, "returned": bool(raw), "definition": bool(ref),
                              "metaepochs": len(deme._history) - 1})
        if verdict:
            self.lsc_true[id(deme)] = "injected" if not raw else "lsc"
        self.lsc_consulted[id(deme)] = True
        # The LSC is consulted at the end of the deme's metaepoch.  If the global stop condition holds at that
        # very moment the deme must end up inactive (no evaluation happens between a deme's last GSC consult and
        # its LSC consult, so on a correct deme the GSC is false here).
        tree = self.w.tree
        if tree is not None and self.w.tree_ready:
            try:
                if tree._gsc(tree):
                    self.gsc_at_lsc[id(deme)] = True
            except Exception:
                pass

    def on_consult(self, tree, site, deme, raw, verdict):
        if site == "gen" and deme is not None and verdict:
            self.gsc_true[id(deme)] = True
        self._check_frozen("consult")

    def _check_frozen(self, where):
        w = self.w
        if not self.frozen:
            return
        self._absorb()
        for k, fr in self.frozen.items():
            d = fr["obj"]
            w.probe("c06-frozen-rechecked")
            if d._active:
                self.violate("reactivated/" + type(d).__name__, {"deme": d.id, "where": where})
                continue
            if self.req_count.get(w.deme_ord(d), 0) != fr["n_req"]:
                self.violate("evaluated-after-stop/" + type(d).__name__, {"deme": d.id, "where": where})
                fr["n_req"] = self.req_count.get(w.deme_ord(d), 0)
            if d.n_evaluations != fr["n_evals"]:
                self.violate("counter-changed-after-stop/" + type(d).__name__, {"deme": d.id, "where": where})
                fr["n_evals"] = d.n_evaluations

    def _check_frozen_hist(self, where):
        for k, fr in self.frozen.items():
            d = fr["obj"]
            dg = hist_digest(d)
            if dg != fr["digest"]:
                self.violate("history-changed-after-stop/" + type(d).__name__, {"deme": d.id, "where": where})
                fr["digest"] = dg

    def on_step_end(self, tree):
        w = self.w
        if self.begin is None:
            return
        w.probe("c06-steps-judged")
        self._absorb()
        self._check_frozen("step-end")
        self._check_frozen_hist("step-end")
        for d in all_demes(tree):
            cls = type(d).__name__
            b = self.begin.get(id(d))
            if b is None:
                # created in this step: must not have run yet
                self.born[id(d)] = w.step
                if len(d._history) != 1:
                    self.violate("fresh-deme-ran-in-its-birth-step/" + cls, {"deme": d.id, "metaepochs": len(d._history) - 1})
                else:
                    w.probe("c06-fresh-deme-waited")
                continue
            adv = len(d._history) - b["me"]
            if b["active"] and not b["hib"]:
                if adv != 1:
                    self.violate("active-deme-advanced-%s/%s" % ("0" if adv == 0 else "many", cls),
                                 {"deme": d.id, "advanced": adv, "step": w.step})
                if self.born.get(id(d)) == w.step - 1 and adv == 1 and len(d._history) != 2:
                    self.violate("first-metaepoch-not-right-after-birth/" + cls, {"deme": d.id})
            else:
                if adv != 0:
                    self.violate("%s-deme-advanced/%s" % ("hibernating" if b["active"] else "inactive", cls),
                                 {"deme": d.id, "advanced": adv})
                elif b["active"] and b["hib"]:
                    w.probe("c06-hibernating-skipped")
            # transitions
            if b["active"] and b["hib"] and not d._active and id(d) not in self.gsc_true:
                self.violate("hibernating-deme-deactivated/" + cls,
                             {"deme": d.id, "step": w.step, "lsc_consulted": id(d) in self.lsc_consulted})
            if b["active"] and not d._active:
                reason = None
                if id(d) in self.lsc_true:
                    reason = self.lsc_true[id(d)]
                    w.probe("c06-stopped-by-injected-lsc" if reason == "injected" else "c06-stopped-by-lsc")
                elif id(d) in self.gsc_true:
                    reason = "gsc"
                    w.probe("c06-stopped-by-gsc")
                elif cls == "LocalDeme":
                    reason = "one-shot"
                    w.probe("c06-stopped-by-engine")
                elif cls == "CMADeme":
                    try:
                        st = d._cma_es.stop()
                    except Exception:
                        st = {"?": 1}
                    if st:
                        reason = "cma-stop"
                        w.probe("c06-stopped-by-engine")
                        w.probe("c06-cma-self-stop")
                if reason is None:
                    self.violate("stopped-without-cause/" + cls, {"deme": d.id, "step": w.step})
                self.frozen[id(d)] = {"obj": d, "digest": hist_digest(d), "n_evals": d.n_evaluations,
                                      "n_req": self.req_count.get(w.deme_ord(d), 0)}
            elif b["active"] and d._active:
                if id(d) in self.lsc_true and cls != "LocalDeme":
                    self.violate("lsc-true-but-still-active/" + cls, {"deme": d.id, "how": self.lsc_true[id(d)]})
                if id(d) in self.gsc_true:
                    self.violate("gsc-true-but-still-active/" + cls, {"deme": d.id})
                if not b["hib"] and adv >= 1:
                    # it ran its metaepoch and is still active
                    if cls == "LocalDeme":
                        self.violate("local-deme-still-active-after-its-search", {"deme": d.id})
                    else:
                        w.probe("c06-survivor-judged")
                        if id(d) not in self.lsc_consulted:
                            self.violate("still-active-without-consulting-lsc/" + cls, {"deme": d.id, "step": w.step})
                        if id(d) in self.gsc_at_lsc:
                            self.violate("gsc-held-at-end-of-metaepoch-but-still-active/" + cls,
                                         {"deme": d.id, "step": w.step})
            elif (not b["active"]) and d._active:
                self.violate("reactivated/" + cls, {"deme": d.id, "where": "step-end"})
            if not b["active"] and id(d) not in self.frozen:
                self.frozen[id(d)] = {"obj": d, "digest": hist_digest(d), "n_evals": d.n_evaluations,
                                      "n_req": self.req_count.get(w.deme_ord(d), 0)}
        self.begin = None

    def on_end(self, tree, outcome):
        if tree is not None and (outcome == "returned" or str(outcome).startswith("capped")):
            self._check_frozen("end")
            self._check_frozen_hist("end")


MONITORS = [C06Monitor]


def run(plan):
    """Plans flagged ``reuse_configs`` run twice (other seeds first) with the SAME LSC and sprout-mechanism objects,
    as a benchmark that builds its level configuration once and loops over seeds does."""
    import copy
    import sys

    from .. import build, runner

    mod = sys.modules[__name__]
    if not plan.get("reuse_configs") or "levels" not in plan:
        return runner.default_run(mod, plan)
    build.SHARED_MECHANISMS.clear()
    build.SHARED_LSCS.clear()
    try:
        warm = copy.deepcopy(plan)
        warm["share_key"] = "c06"
        warm["share_lscs"] = True
        warm["prior_seed"] = (plan["prior_seed"] + 29) % (2 ** 31)
        if warm["options"].get("random_seed") is not None:
            warm["options"]["random_seed"] = warm["options"]["random_seed"] + 1
        main = copy.deepcopy(plan)
        main["share_key"] = "c06"
        main["share_lscs"] = True
        w1 = build.execute(warm, MONITORS)
        v1 = list(w1.violations)
        w1.dispose()
        w = build.execute(main, MONITORS)
        try:
            w.probe("c06-configs-reused")
            for v in v1:
                v = dict(v)
                v["detail"] = dict(v["detail"], in_warm_up_run=True)
                w.violations.append(v)
            return runner.summarize_world(w, mod, plan)
        finally:
            w.dispose()
    finally:
        build.SHARED_MECHANISMS.clear()
        build.SHARED_LSCS.clear()


def nontrivial(w):
    return w.probes.get("c06-steps-judged", 0) > 0 and w.probes.get("c06-frozen-rechecked", 0) > 0
