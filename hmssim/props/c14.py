"""C14 - a seeded run is exactly reproducible."""
import copy
import json
import os
import subprocess
import sys

import hmssim
from .. import plan as P
from ..sim import tree_digest, tree_struct

PROP = "C14"
N_QUICK = 2000
N_THOROUGH = 40000
RULE = ("Every plan has options.random_seed (or minimize(seed=...)) set and is executed four times in one worker "
        "process - base; other prior RNG state (seed + junk draws); other virtual clock (offset, cost, jumps); both plus "
        "other substituted OS entropy, late after an unrelated run - and a sample of the plans again in freshly spawned "
        "interpreters with other PYTHONHASHSEED values; tree digests (demes, ids, start metaepochs, genomes, fitness "
        "values, evaluation counts, activity / hibernation flags) and request counts must be identical. All engine "
        "mixes, both sprout mechanisms and composed ones, hibernation on/off.")
NONTRIVIAL_RULE = "a seeded plan that completed >= 1 metaepoch and whose 4 in-process executions were compared"
EXPECTED_PROBES = ["c14-twins-compared", "c14-fresh-interpreter-compared", "c14-hibernation-on", "c14-with-cma",
                   "c14-with-qmc", "c14-with-local", "c14-minimize-entry", "c14-nan-stratum"]
ASSUMPTIONS = ["uuids, loggers and wall-clock durations are excluded from the digests",
               "unseeded QMC samplers (numpy default_rng) cannot be put behind a seam and are not simulated"]
WALL_S = 60.0

PROFILE = P.profile(p_seeded=1.0, p_clock_jumps=0.4, entry_w={"tree": 8, "hms": 1, "minimize": 1.5},
                    root_engines={"lhs": 1.5, "sobol": 1.5}, leaf_engines={"cma": 5, "local": 3},
                    p_cutoff=0.2, metaepochs=[2, 8])


def gen(seed, tier):
    pl = P.gen_plan(seed, PROFILE, PROP)
    if "minimize" in pl and pl["minimize"].get("seed") is None:
        pl["minimize"]["seed"] = seed % 1000003
    if "options" in pl and pl["options"].get("random_seed") is None:
        pl["options"]["random_seed"] = seed % 1000003
    if "levels" in pl and seed % 13 == 5 and any(l["engine"] == "cma" for l in pl["levels"]):
        # the largest seeds numpy accepts (CMA-ES demes derive theirs as random_seed + started_at): children can only
        # be sprouted in metaepoch 1 here, so that the derived seed stays legal
        pl["options"]["random_seed"] = 2 ** 32 - 2
        pl["gsc"] = {"kind": "metaepoch_limit", "limit": 2}
        pl["levels"] = pl["levels"][:2] if pl["levels"][1]["engine"] == "cma" else pl["levels"]
        if len(pl["levels"]) == 2:
            pl["level_stack"] = pl["level_stack"][:2]
            if pl["sprout"].get("generator", {}).get("kind") == "nbc_local":
                pl["sprout"]["generator"]["kind"] = "nbc"
    if "levels" in pl and seed % 5 == 3:
        for st in pl["stacks"]:
            st["use_cache"] = True  # FunctionProblem(use_cache=True)
    if "levels" in pl and seed % 7 == 0:
        P.nan_stratum(pl, seed)  # comparisons of NaN fitness values must not make a seeded run irreproducible
    return pl


def variants(plan):
    a = copy.deepcopy(plan)
    a["prior_seed"] = (plan["prior_seed"] * 7 + 13) % (2 ** 31)
    a["prior_junk"] = plan.get("prior_junk", 0) + 97
    a["np_printoptions"] = {"precision": 2, "suppress": True}  # e.g. set at the top of the user's notebook
    b = copy.deepcopy(plan)
    b["clock"] = {"start": plan["clock"]["start"] + 123456.789, "cost": plan["clock"]["cost"] * 3.0 + 1e-9,
                  "jumps": {"3": 86400.0, "40": 0.0, "41": 0.0, "200": 3.2e7}}
    c = copy.deepcopy(b)
    c["prior_seed"] = (plan["prior_seed"] + 99991) % (2 ** 31)
    c["prior_junk"] = 5
    c["entropy_seed"] = plan.get("entropy_seed", 0) + 1
    return [("prior-rng", a), ("clock", b), ("all-late", c)]


def _one(plan):
    from .. import build

    w = build.execute(plan, ())
    t = w.final_tree
    dg = tree_digest(t) if t is not None else None
    return w, dg


def first_diff(s1, s2):
    if s1["metaepoch_count"] != s2["metaepoch_count"]:
        return {"metaepoch_count": [s1["metaepoch_count"], s2["metaepoch_count"]]}
    for li, (a, b) in enumerate(zip(s1["levels"], s2["levels"])):
        if len(a) != len(b):
            return {"level": li, "demes": [len(a), len(b)]}
        for da, db in zip(a, b):
            if da != db:
                names = ["id", "class", "level", "started_at", "active", "hibernating", "n_evaluations", "seed",
                         "history", "children"]
                for n, x, y in zip(names, da, db):
                    if x != y:
                        return {"level": li, "deme": da[0], "field": n,
                                "values": [x, y] if n not in ("history", "seed") else "differ"}
    return {"?": "?"}


def run(plan):
    from .. import build, runner

    mod = sys.modules[__name__]
    w, dg = _one(plan)
    try:
        if w.outcome in ("returned",) or str(w.outcome).startswith("capped"):
            s0 = tree_struct(w.final_tree) if w.final_tree is not None else None
            tiny = P.gen_plan(plan["seed"] ^ 0xABCDEF, P.profile(metaepochs=[1, 2], p_seeded=0.0), "GEN")
            for label, v in variants(plan):
                if label == "all-late":
                    wt = build.execute(tiny, ())
                    wt.dispose()
                w2, dg2 = _one(v)
                try:
                    w.probe("c14-twins-compared")
                    if w2.outcome != w.outcome or dg2 != dg or w2.n_requests != w.n_requests:
                        detail = {"variant": label, "outcomes": [w.outcome, w2.outcome],
                                  "requests": [w.n_requests, w2.n_requests]}
                        if w2.final_tree is not None and s0 is not None:
                            detail["first_difference"] = first_diff(s0, tree_struct(w2.final_tree))
                        cls = "-".join(sorted({l["engine"] for l in plan.get("levels", [])})) or "minimize"
                        w.violate(PROP, "digest-differs/" + label, detail)
                        w.extra["engines"] = cls
                finally:
                    w2.dispose()
            opts = plan.get("options", {})
            if opts.get("hibernation"):
                w.probe("c14-hibernation-on")
            eng = {l["engine"] for l in plan.get("levels", [])}
            if "cma" in eng or plan.get("entry") == "minimize":
                w.probe("c14-with-cma")
            if eng & {"lhs", "sobol"}:
                w.probe("c14-with-qmc")
            if "local" in eng:
                w.probe("c14-with-local")
            if plan.get("entry") == "minimize":
                w.probe("c14-minimize-entry")
            if plan.get("nan_stratum"):
                w.probe("c14-nan-stratum")
        return runner.summarize_world(w, mod, plan, {"tree": dg})
    finally:
        w.dispose()


def nontrivial(w):
    return w.probes.get("c14-twins-compared", 0) >= 3 and w.steps_done > 0


def child_main(argv):
    """Fresh-interpreter side: print {index: [outcome, tree digest, requests]} for the given indices."""
    verif_seed, tier = int(argv[0]), argv[1]
    idxs = [int(x) for x in argv[2].split(",")]
    real = os.dup(1)
    os.dup2(os.open(os.devnull, os.O_WRONLY), 1)
    out = {}
    for i in idxs:
        plan = gen(P.run_seed(verif_seed, PROP, i), tier)
        w, dg = _one(plan)
        out[str(i)] = [w.outcome, dg, w.n_requests]
        w.dispose()
    os.write(real, (json.dumps(out) + "\n").encode())
    return 0


def post_batch(results, tier, verif_seed):
    """Re-run a sample of the batch in fresh interpreters with other hash seeds; returns (violations, probes)."""
    n = 64 if tier == "quick" else 960
    sample = [r for r in results if r["outcome"] == "returned"][:n]
    if not sample:
        return [], {}
    k = 8 if tier == "quick" else 16
    groups = [sample[i::k] for i in range(k)]
    procs = []
    cli = os.path.join(hmssim.VERIF_ROOT, "hmssim_cli.py")
    for gi, g in enumerate(groups):
        if not g:
            continue
        env = dict(os.environ)
        env["PYTHONHASHSEED"] = str(1000 + 37 * gi)
        env.pop("HMSSIM_REEXEC", None)
        cmd = [sys.executable, "-B", cli, "--c14-child", str(verif_seed), tier, ",".join(str(r["index"]) for r in g)]
        procs.append((g, subprocess.Popen(cmd, env=env, stdout=subprocess.PIPE, stderr=subprocess.PIPE, text=True)))
    viol = []
    compared = 0
    for g, p in procs:
        out, err = p.communicate(timeout=3000)
        if p.returncode != 0:
            raise RuntimeError("C14 fresh-interpreter child failed: " + err[-1500:])
        d = json.loads(out.strip().splitlines()[-1])
        for r in g:
            got = d[str(r["index"])]
            compared += 1
            if got != [r["outcome"], r.get("tree"), r["requests"]]:
                viol.append((r, {"property": PROP, "class_key": "digest-differs/fresh-interpreter-hashseed",
                                 "detail": {"pool": [r["outcome"], r.get("tree"), r["requests"]], "fresh": got}}))
    return viol, {"c14-fresh-interpreter-compared": compared}
