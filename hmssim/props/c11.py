"""C11 - each generation is bred from the generation immediately before it."""
from .. import plan as P
from ..sim import Monitor
from .common import all_demes, fb, flat, gb

PROP = "C11"
N_QUICK = 8000
N_THOROUGH = 200000
RULE = ("Plans biased to generations per metaepoch >= 2, large k_elites, p_mutation < 1, DE / SHADE with low crossover, "
        "CMA-ES leaves, root and sprouted positions; faults: budget exhaustion, external stop signal, injected LSC verdicts.")
NONTRIVIAL_RULE = ">= 1 consecutive generation pair *inside* a metaepoch (generations >= 2) was judged"
EXPECTED_PROBES = ["c11-pairs-judged", "c11-inner-pairs-judged", "c11-carried-over", "c11-newly-evaluated",
                   "c11-engine-parents-checked", "c11-cma-countiter-checked"]
ASSUMPTIONS = ["a generation is 'completed' at the GSC consult its deme makes right after producing it (generation 0: when the deme's construction ends)"]

PROFILE = P.profile(gens=[2, 2, 3, 4], p_no_elite=0.1, p_cutoff=0.2, entry_w={"tree": 9, "hms": 1, "minimize": 0},
                    root_engines={"ea": 6, "de": 3, "shade": 3, "lhs": 0.3, "sobol": 0.3, "custom": 0.2},
                    leaf_engines={"ea": 4, "de": 3, "shade": 3, "cma": 3, "local": 0.5},
                    metaepochs=[2, 8])

JOIN_CLASSES = ("EADeme", "DEDeme", "SHADEDeme", "CMADeme")


def gen(seed, tier):
    return P.gen_plan(seed, PROFILE, PROP)


class C11Monitor(Monitor):
    prop = PROP

    def __init__(self, w):
        super().__init__(w)
        self.close = {}  # id(deme) -> list of seq at which generation k was completed
        self.keep = {}
        self.judged = {}  # id(deme) -> number of generations already judged
        self.req_idx = {}  # deme ord -> {gbytes: [seq,...]}
        self.last_req = 0
        self.last_off = {}  # id(engine proxy) -> (deme id, offspring list)
        self.cma_iter = {}

    def _register(self, d):
        if id(d) not in self.close:
            self.close[id(d)] = [self.w.seq]
            self.keep[id(d)] = d

    def on_tree(self, tree):
        for d in all_demes(tree):
            self._register(d)

    def on_sprout_end(self, tree):
        for d in all_demes(tree):
            self._register(d)

    def on_consult(self, tree, site, deme, raw, verdict):
        if site == "gen" and deme is not None:
            self._register(deme)
            self.close[id(deme)].append(self.w.seq)

    def on_engine_enter(self, proxy, parents, kwargs):
        # SEA-family: the parents handed to the engine must be the generation produced just before
        from ..sim import calling_deme

        w = self.w
        prev = self.last_off.get(id(proxy))
        if prev is None:
            return
        step, off = prev
        if step != w.step:
            return  # first iteration of a new metaepoch: parents are the visible current population (checked by the join)
        w.probe("c11-engine-parents-checked")
        a = [(gb(i.genome), fb(i.fitness)) for i in parents]
        b = [(gb(i.genome), fb(i.fitness)) for i in off]
        if a != b:
            self.violate("engine-parents-not-previous-generation/EADeme",
                         {"n_parents": len(parents), "n_prev_offspring": len(off),
                          "common": len(set(a) & set(b))})

    def on_engine_run(self, proxy, parents, kwargs, offspring):
        self.last_off[id(proxy)] = (self.w.step, offspring)

    def _absorb(self):
        w = self.w
        for r in w.requests[self.last_req:]:
            self.req_idx.setdefault(r.deme, {}).setdefault(r.g, []).append(r.seq)
        self.last_req = len(w.requests)

    def _judge(self, tree):
        w = self.w
        self._absorb()
        for d in all_demes(tree):
            cls = type(d).__name__
            if cls not in JOIN_CLASSES:
                continue
            gens = flat(d)
            closes = self.close.get(id(d))
            if closes is None:
                continue
            start = self.judged.get(id(d), 0)
            o = w.deme_ord(d)
            idx = self.req_idx.get(o, {})
            # metaepoch boundaries inside the flattened history
            inner = set()
            k = 0
            for me in d._history:
                for j in range(len(me)):
                    if j > 0:
                        inner.add(k)
                    k += 1
            if len(gens) > len(closes):
                # one GSC consult closes every generation: a history with more generations than that holds
                # generations that were not produced when it says (e.g. a block recorded twice)
                self.violate("more-generations-than-generation-consults/" + cls,
                             {"deme": d.id, "generations": len(gens), "consults_plus_initial": len(closes)})
            for gi in range(max(1, start), len(gens)):
                if gi >= len(closes):
                    break
                prev = {(gb(i.genome), fb(i.fitness)) for i in gens[gi - 1]}
                t_prev = closes[gi - 1]
                t_this = closes[gi]
                w.probe("c11-pairs-judged")
                if gi in inner:
                    w.probe("c11-inner-pairs-judged")
                for ind in gens[gi]:
                    key = (gb(ind.genome), fb(ind.fitness))
                    if key in prev:
                        w.probe("c11-carried-over")
                        continue
                    seqs = idx.get(key[0], ())
                    if any(t_prev < s <= t_this for s in seqs):
                        w.probe("c11-newly-evaluated")
                        continue
                    self.violate("not-from-previous-generation/" + cls,
                                 {"deme": d.id, "generation": gi, "inside_metaepoch": gi in inner,
                                  "evaluated_earlier": bool(seqs)})
                    break
            self.judged[id(d)] = len(gens)
            if cls == "CMADeme":
                it = int(d._cma_es.countiter)
                w.probe("c11-cma-countiter-checked")
                # tell() is called once per generation after the first: countiter == generations - 1 while running
                if it != len(gens) - 1:
                    self.violate("cma-countiter-vs-generations", {"deme": d.id, "countiter": it, "generations": len(gens)})

    def on_boundary(self, tree):
        self._judge(tree)

    def on_end(self, tree, outcome):
        if tree is not None and outcome == "returned":
            self._judge(tree)


MONITORS = [C11Monitor]


def nontrivial(w):
    return w.probes.get("c11-inner-pairs-judged", 0) > 0
