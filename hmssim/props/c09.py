"""C09 - sprouts keep their distance from existing demes; centroids are current."""
import numpy as np

from .. import plan as P
from ..sim import Monitor
from .common import all_demes, flat

PROP = "C09"
N_QUICK = 2000
N_THOROUGH = 60000
RULE = ("Plans: mechanisms that contain FarEnough / NBC_FarEnough (both factories and composed chains, norms 1 / 2 / "
        "inf, all thresholds, check_only_active on/off), siblings of every engine type (SEA, DE, SHADE, CMA-ES, local) "
        "that have run for many metaepochs since they were created, level limits >= 2 so that later rounds are "
        "filtered against demes that have moved.")
NONTRIVIAL_RULE = ">= 1 accepted seed was measured against the recomputed centroid of >= 1 existing deme that had run >= 1 metaepoch since creation"
EXPECTED_PROBES = ["c09-centroid-reads", "c09-accepted-seed-vs-sibling", "c09-sibling-had-moved", "c09-filter-rejected",
                   "c09-centroid-of-cma", "c09-centroid-of-local", "c09-centroid-of-sea-de-shade", "c09-mechanism-reused"]
ASSUMPTIONS = ["threshold comparisons within relative 1e-9 of the threshold get no verdict",
               "the monitor's centroid read is non-perturbing: instance state changed by the accessor is restored"]

PROFILE = P.profile(levels_w={1: 0, 2: 6, 3: 4}, level_limit=[2, 4], metaepochs=[4, 14],
                    sprout_w={"nbc_factory": 3, "simple_factory": 3, "composed": 4},
                    leaf_engines={"ea": 3, "de": 2, "shade": 2, "cma": 4, "local": 2},
                    lsc_w={"dont_stop": 5, "metaepoch_limit": 2, "fitness_steadiness": 1, "all_children_stopped": 0.5,
                           "dont_run": 0.3, "eval_budget": 1},
                    entry_w={"tree": 9, "hms": 1, "minimize": 0.5}, p_cutoff=0.1, p_stop_signal=0.15)


def gen(seed, tier):
    pl = P.gen_plan(seed, PROFILE, PROP)
    sp = pl.get("sprout")
    if sp and "generator" in sp:
        if not any(f["kind"] in ("far_enough", "nbc_far_enough") for f in sp["deme_filters"]):
            minr = min(h - l for l, h in pl["box"])
            sp["deme_filters"].insert(0, {"kind": "far_enough", "min_distance": minr * 0.05, "norm_ord": 2})
    if "levels" in pl and seed % 4 == 0:
        pl["reuse_mechanism"] = True
        # finished demes in the later run make a leaked per-deme-id cache visible
        for l in pl["levels"][1:]:
            if l["lsc"]["kind"] == "dont_stop":
                l["lsc"] = {"kind": "metaepoch_limit", "limit": 1 + seed % 3}
    return pl


def peek_centroid(d):
    """Non-perturbing read of deme.centroid."""
    saved = dict(d.__dict__)
    try:
        c = d.centroid
    finally:
        for k in list(d.__dict__.keys()):
            if k not in saved:
                del d.__dict__[k]
        for k, v in saved.items():
            if d.__dict__.get(k, None) is not v:
                d.__dict__[k] = v
    return c


def true_centroid(d):
    gens = flat(d)
    if not gens or not gens[-1]:
        return None
    return np.mean(np.array([np.asarray(i.genome, dtype=float) for i in gens[-1]]), axis=0)


class C09Monitor(Monitor):
    prop = PROP

    def __init__(self, w):
        super().__init__(w)
        self.reported = set()

    def _reference_mean(self, parent):
        """Mean nearest-better distance of the parent's current population by the independent reference NBC
        (None when the generator's parameters are unknown or the population is outside the definition's precondition)."""
        from .c15 import reference_nbc
        from .common import gb

        w = self.w
        sp = w.plan.get("sprout")
        if sp is None:
            tf = 0.7
        elif sp.get("factory") == "nbc":
            tf = float(sp["trunc_factor"])
        elif "generator" in sp and sp["generator"]["kind"] != "best":
            tf = float(sp["generator"]["truncation_factor"])
        else:
            return None
        if not parent._active:
            return None
        pop = list(flat(parent)[-1])
        if len({gb(i.genome) for i in pop}) != len(pop):
            return None
        fits = [float(i.fitness) for i in pop]
        if any(x != x for x in fits):
            return None
        ref = reference_nbc(fits, [np.asarray(i.genome, dtype=float).tolist() for i in pop], bool(w.plan["maximize"]), 1.0, tf)
        if ref.get("kept", 0) < 2 or not np.isfinite(ref["mean"]):
            return None
        return ref["mean"]

    def _centroids(self, tree, where):
        w = self.w
        for d in all_demes(tree):
            tc = true_centroid(d)
            if tc is None:
                continue
            c = peek_centroid(d)
            w.probe("c09-centroid-reads")
            cls = type(d).__name__
            if cls == "CMADeme":
                w.probe("c09-centroid-of-cma")
            elif cls == "LocalDeme":
                w.probe("c09-centroid-of-local")
            elif cls in ("EADeme", "DEDeme", "SHADEDeme"):
                w.probe("c09-centroid-of-sea-de-shade")
            if c is None:
                bad = True
            else:
                c = np.asarray(c, dtype=float)
                scale = max(1.0, float(np.max(np.abs(tc))))
                bad = c.shape != tc.shape or bool(np.max(np.abs(c - tc)) > 1e-12 * scale)
            if bad and (id(d), "c") not in self.reported:
                self.reported.add((id(d), "c"))
                self.violate("centroid-stale/" + cls, {"deme": d.id, "where": where, "metaepochs": len(d._history) - 1,
                                                       "reported": None if c is None else np.asarray(c).tolist(),
                                                       "mean_of_current_population": tc.tolist()})

    def on_consult(self, tree, site, deme, raw, verdict):
        if self.w.tree_ready:
            self._centroids(tree, site)

    def on_filtered(self, tree, ftap, before, res):
        f = ftap.inner
        name = type(f).__name__
        if name not in ("FarEnough", "NBC_FarEnough"):
            return
        w = self.w
        ordn = f.norm_ord
        sp = w.plan.get("sprout") or {}
        if "generator" in sp and ftap.chain == "deme" and ftap.index < len(sp.get("deme_filters", [])):
            # the norm as it was CONFIGURED (plan), not as the filter object reports it back
            spec = sp["deme_filters"][ftap.index]
            if spec.get("kind") in ("far_enough", "nbc_far_enough"):
                cfg = spec.get("norm_ord", 2)
                ordn = np.inf if cfg == "inf" else cfg
                w.probe("c09-configured-norm-used")
        for parent, cand in res.items():
            tl = parent._level + 1
            if tl >= len(tree.levels):
                continue
            b = before.get(parent)
            if b is not None and len(cand.individuals) < len(b[0]):
                w.probe("c09-filter-rejected")
            if name == "FarEnough":
                sibs = [s for s in tree.levels[tl] if s._active]
                thr = float(f.min_distance)
            else:
                sibs = [s for s in tree.levels[tl] if (s._active or not f.check_only_active)]
                md = cand.features.nbc_mean_distance
                if md is None:
                    continue
                ref = self._reference_mean(parent)
                if ref is not None:
                    w.probe("c09-threshold-from-reference-nbc-mean")
                    md = ref
                thr = float(f.min_distance_factor) * float(md)
            if thr != thr:
                continue
            for s in sibs:
                tc = true_centroid(s)
                if tc is None:
                    continue
                moved = len(s._history) > 1
                for ind in cand.individuals:
                    dist = float(np.linalg.norm(np.asarray(ind.genome, dtype=float) - tc, ord=ordn))
                    w.probe("c09-accepted-seed-vs-sibling")
                    if moved:
                        w.probe("c09-sibling-had-moved")
                    if dist <= thr * (1 - 1e-9) - 1e-300:
                        self.violate("accepted-too-close/" + name + "/" + type(s).__name__,
                                     {"parent": parent.id, "sibling": s.id, "distance": dist, "threshold": thr,
                                      "sibling_metaepochs": len(s._history) - 1, "sibling_active": bool(s._active)})

    def on_end(self, tree, outcome):
        if tree is not None and (outcome == "returned" or str(outcome).startswith("capped")):
            self._centroids(tree, "end")


MONITORS = [C09Monitor]


def run(plan):
    """Plans flagged ``reuse_mechanism`` run twice (other seeds first) through ONE SproutMechanism object, as
    a user who keeps a module-level mechanism does (test/config.py): state a filter keeps must not leak."""
    import copy
    import sys

    from .. import build, runner

    mod = sys.modules[__name__]
    if not plan.get("reuse_mechanism") or "levels" not in plan:
        return runner.default_run(mod, plan)
    build.SHARED_MECHANISMS.clear()
    try:
        warm = copy.deepcopy(plan)
        warm["share_key"] = "c09"
        warm["prior_seed"] = (plan["prior_seed"] + 17) % (2 ** 31)
        if warm["options"].get("random_seed") is not None:
            warm["options"]["random_seed"] = warm["options"]["random_seed"] + 1
        warm["faults"] = {}
        main = copy.deepcopy(plan)
        main["share_key"] = "c09"
        w1 = build.execute(warm, MONITORS)
        v1 = list(w1.violations)
        w1.dispose()
        w = build.execute(main, MONITORS)
        try:
            w.probe("c09-mechanism-reused")
            for v in v1:
                v = dict(v)
                v["detail"] = dict(v["detail"], in_warm_up_run=True)
                w.violations.append(v)
            return runner.summarize_world(w, mod, plan)
        finally:
            w.dispose()
    finally:
        build.SHARED_MECHANISMS.clear()


def nontrivial(w):
    return w.probes.get("c09-sibling-had-moved", 0) > 0 and w.probes.get("c09-centroid-reads", 0) > 0
