"""C18 - hibernation suspends exactly the demes that did not sprout, and never stalls."""
import hashlib
import random as _random

import numpy as np

from .. import plan as P
from ..sim import Monitor, tree_digest
from .common import all_demes
from .c06 import hist_digest

PROP = "C18"
N_QUICK = 8000
N_THOROUGH = 200000
RULE = ("Plans: hibernation on in 70% (off in 30%), 2-3 level trees, all sprout mechanisms and limits, LSCs that stop "
        "leaves while parents sleep (incl. injected verdicts), metaepoch- and evaluation-based GSCs, small level limits.")
NONTRIVIAL_RULE = "hibernation on and >= 1 sprouting round judged with >= 1 deme hibernating afterwards, or hibernation off and >= 1 round judged"
EXPECTED_PROBES = ["c18-rounds-judged", "c18-deme-put-to-sleep", "c18-deme-woken", "c18-new-nonleaf-deme-born",
                   "c18-sleeping-deme-quiet", "c18-hibernation-off-judged", "c18-steps-progress-judged",
                   "c18-all-leaves-stopped-while-parent-sleeps"]
ASSUMPTIONS = ["stall = a whole metaepoch with no objective request, unchanged tree digest and unchanged global RNG state "
               "while the GSC is false and a deme is active (the next metaepoch is then provably identical)"]

PROFILE = P.profile(p_hibernation=0.7, levels_w={1: 0.3, 2: 5, 3: 5}, p_lsc_inject=0.4,
                    lsc_w={"dont_stop": 3, "metaepoch_limit": 4, "fitness_steadiness": 2, "all_children_stopped": 1,
                           "dont_run": 1, "eval_budget": 2},
                    gsc_w={"metaepoch_limit": 4, "singular_eval_limit": 3, "fitness_eval_limit": 3, "precision": 0.5,
                           "root_stopped": 0.5, "all_stopped": 1, "no_active_nonroot": 1, "dont_run": 0},
                    level_limit=[1, 3], entry_w={"tree": 9, "hms": 1, "minimize": 0}, metaepochs=[3, 14])


def gen(seed, tier):
    pl = P.gen_plan(seed, PROFILE, PROP)
    if pl.get("entry") in ("tree", "steps") and seed % 6 == 5:
        # the user calls run_metaepoch() and run_sprout() himself (the tree's metaepoch counter stays where it is)
        pl["entry"] = "phases"
        pl["phase_rounds"] = 3 + seed % 6
        pl["faults"] = {k: v for k, v in pl.get("faults", {}).items() if k == "lsc_inject"}
    opts = pl.get("options", {})
    if "hibernation" not in opts and seed % 2 == 0:
        # an earlier tree of the same process had hibernation on; this one leaves the key out (or passes no options)
        import copy

        o2 = copy.deepcopy(opts)
        o2["hibernation"] = True
        pl["preceded_by"] = [{"options": o2, "faults": {}, "omit_options": False}]
        if not opts:
            pl["omit_options"] = True
    return pl


def rng_state_digest():
    h = hashlib.sha256()
    st = np.random.get_state()
    h.update(st[1].tobytes())
    h.update(repr(st[2:]).encode())
    h.update(repr(_random.getstate()).encode())
    return h.digest()


class C18Monitor(Monitor):
    prop = PROP

    def __init__(self, w):
        super().__init__(w)
        self.on = bool(w.plan.get("options", {}).get("hibernation"))
        self.E = None
        self.S = None
        self.before_ids = None
        self.sleeping = {}  # id(deme) -> dict(obj, digest, n_req)
        self.req_count = {}
        self.last_req = 0
        self.step_state = None
        self.gsc_in_step = []
        self.last_gen = None

    def _absorb(self):
        for r in self.w.requests[self.last_req:]:
            self.req_count[r.deme] = self.req_count.get(r.deme, 0) + 1
        self.last_req = len(self.w.requests)

    # ------------------------------------------------------------------ rounds
    def on_sprout_begin(self, tree):
        self.E = [d for lv in tree.levels[:-1] for d in lv if d._active]
        self.before_ids = {id(d) for d in all_demes(tree)}
        self.S = None

    def on_seeds(self, tree, res):
        self.S = {id(d) for d, c in res.items() if c.individuals}

    def on_generated(self, tree, gen, res):
        self.last_gen = (type(gen).__name__, {id(d): len(c.individuals) for d, c in res.items()})

    def on_sprout_end(self, tree):
        w = self.w
        if self.E is None or self.S is None:
            return
        w.probe("c18-rounds-judged")
        # "took a sprout from it" = a child was actually created from it in this round
        intended = self.S
        actual = set()
        for d in all_demes(tree):
            for c in d._children:
                if id(c) not in self.before_ids:
                    actual.add(id(d))
        if actual != intended:
            w.probe("c18-returned-seeds-not-all-sprouted")
        self.S = actual
        nonleaf = {id(d) for lv in tree.levels[:-1] for d in lv}
        if not self.on:
            w.probe("c18-hibernation-off-judged")
            for d in all_demes(tree):
                if d._hibernating:
                    self.violate("hibernating-with-option-off", {"deme": d.id})
            self.E = None
            return
        for d in self.E:
            if not d._active:
                continue
            want = id(d) not in self.S
            if bool(d._hibernating) != want:
                self.violate("flag-wrong-for-existing-deme/" + ("should-sleep" if want else "should-be-awake"),
                             {"deme": d.id, "level": d._level, "hibernating": bool(d._hibernating)})
            if want:
                w.probe("c18-deme-put-to-sleep")
            elif id(d) in self.sleeping:
                w.probe("c18-deme-woken")
        for d in all_demes(tree):
            if id(d) not in self.before_ids:
                if id(d) in nonleaf:
                    w.probe("c18-new-nonleaf-deme-born")
                if d._hibernating:
                    self.violate("new-deme-asleep-at-birth", {"deme": d.id, "level": d._level})
        # leaves never hibernate
        for d in tree.levels[-1]:
            if len(tree.levels) > 1 and d._hibernating:
                self.violate("leaf-hibernating", {"deme": d.id})
        # refresh the sleeping set
        self._absorb()
        new_sleep = {}
        for d in all_demes(tree):
            if d._hibernating and d._active:
                old = self.sleeping.get(id(d))
                new_sleep[id(d)] = old or {"obj": d, "digest": hist_digest(d), "n_evals": d.n_evaluations,
                                           "n_req": self.req_count.get(w.deme_ord(d), 0)}
        self.sleeping = new_sleep
        for k, s in self.sleeping.items():
            d = s["obj"]
            kids = d._children
            if kids and all(not c._active for c in kids):
                w.probe("c18-all-leaves-stopped-while-parent-sleeps")
        self.E = None

    def _check_sleepers(self, where):
        w = self.w
        if not self.sleeping:
            return
        self._absorb()
        for k, s in self.sleeping.items():
            d = s["obj"]
            if not d._hibernating:
                continue
            w.probe("c18-sleeping-deme-quiet")
            if self.req_count.get(w.deme_ord(d), 0) != s["n_req"]:
                self.violate("hibernating-deme-evaluated", {"deme": d.id, "where": where})
                s["n_req"] = self.req_count.get(w.deme_ord(d), 0)
            if d.n_evaluations != s["n_evals"]:
                self.violate("hibernating-deme-evaluation-counter-grew", {"deme": d.id, "where": where,
                                                                         "before": s["n_evals"], "now": d.n_evaluations})
                s["n_evals"] = d.n_evaluations
            if hist_digest(d) != s["digest"]:
                self.violate("hibernating-deme-history-changed", {"deme": d.id, "where": where})
                s["digest"] = hist_digest(d)

    # ------------------------------------------------------------------ progress
    def on_consult(self, tree, site, deme, raw, verdict):
        self.gsc_in_step.append(verdict)

    @staticmethod
    def _levels_digest(tree):
        from ..sim import deme_digest_parts

        h = hashlib.sha256()
        for lv in tree.levels:
            h.update(b"|")
            for d in lv:
                h.update(repr(deme_digest_parts(d)).encode())
        return h.digest()

    def on_step_begin(self, tree):
        self.gsc_in_step = []
        self.step_state = {"n_req": len(self.w.requests), "digest": self._levels_digest(tree), "rng": rng_state_digest(),
                           "active": [d for d in all_demes(tree) if d._active]}

    def on_metaepoch_end(self, tree):
        self._check_sleepers("metaepoch-end")

    def on_step_end(self, tree):
        w = self.w
        self._check_sleepers("step-end")
        st = self.step_state
        if st is None:
            return
        w.probe("c18-steps-progress-judged")
        no_req = len(w.requests) == st["n_req"]
        gsc_false = not any(self.gsc_in_step)
        # demes that were active when the step began and still are (a deme created by this step's round could not run yet)
        active = [d for d in st["active"] if d._active]
        if no_req and gsc_false and active and self._levels_digest(tree) == st["digest"]:
            # digest without the metaepoch counter
            same_rng = rng_state_digest() == st["rng"]
            allhib = all(d._hibernating for d in active)
            if same_rng and allhib:
                # identify the history: did the last sprouting round still generate candidates from the sleepers
                # (and the filters rejected them all), or did the generator offer nothing for them?
                gname, counts = self.last_gen if self.last_gen else ("no-round", {})
                offered = [counts.get(id(d), 0) for d in active]
                how = "candidates-all-filtered" if offered and all(n > 0 for n in offered) else "no-candidates-generated"
                self.violate("stall/all-active-demes-hibernating/%s/%s" % (gname, how),
                             {"step": w.step, "active": [d.id for d in active], "gsc": w.plan.get("gsc", {}).get("kind"),
                              "candidates_offered_per_sleeper": offered})
            elif same_rng:
                self.violate("stall/no-evaluation-no-state-change", {"step": w.step, "active": [d.id for d in active]})
            else:
                w.probe("c18-step-without-evaluation-but-rng-advanced")
        self.step_state = None


MONITORS = [C18Monitor]


def nontrivial(w):
    if w.plan.get("options", {}).get("hibernation"):
        return w.probes.get("c18-rounds-judged", 0) > 0 and w.probes.get("c18-deme-put-to-sleep", 0) > 0
    return w.probes.get("c18-rounds-judged", 0) > 0
