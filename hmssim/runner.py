"""Batch runner: seeded search over plans on all cores, evidence, known findings, shrinking, replay."""
import concurrent.futures as cf
import faulthandler
import importlib
import json
import multiprocessing as mp
import os
import sys
import time
import traceback

import hmssim
from . import plan as P

ROOT = hmssim.VERIF_ROOT
OUT = os.environ.get("VERIF_OUT", ROOT)  # evidence / replays of scratch runs (mutant sensitivity tests) go elsewhere
LEVEL = "exploration"

REAL_COMPONENTS = ["pyhms (all of it, from %s)" % hmssim.PYHMS_SRC, "cma", "scipy (L-BFGS-B, qmc, stats)", "numpy", "dill",
                   "treelib", "structlog"]
FAKE_COMPONENTS = ["objective functions (catalogue of deterministic synthetic landscapes)", "file system (in-memory)",
                   "clock (virtual)", "OS entropy (simulator PRNG)", "stdout (sink)"]


def load_prop(prop):
    return importlib.import_module("hmssim.props." + prop.lower())


def known_findings():
    path = os.path.join(ROOT, "known_findings.json")
    if not os.path.exists(path):
        return []
    with open(path) as f:
        return json.load(f).get("findings", [])


def is_known(prop, class_key, kf=None):
    kf = known_findings() if kf is None else kf
    for e in kf:
        if e.get("status") == "known" and e.get("property") == prop and e.get("class_key") == class_key:
            return e
    return None


# ------------------------------------------------------------------------------------------
def _worker_init():
    # workers never need stdout (structlog prints there); results travel as return values
    try:
        devnull = os.open(os.devnull, os.O_WRONLY)
        os.dup2(devnull, 1)
    except OSError:
        pass
    faulthandler.enable()


def summarize_world(w, mod, plan, extra=None):
    res = {
        "seed": plan["seed"],
        "outcome": w.outcome,
        "violations": w.violations,
        "fired": dict(w.fired),
        "probes": dict(w.probes),
        "abstract": w.abstract_trace_hash(),
        "states": [repr(s) for s in w.states],
        "sim_time": w.clock.now - w.clock.start,
        "requests": w.n_requests,
        "invocations": w.n_invocations,
        "steps": w.steps_done,
        "consults": w.n_consults,
        "trace": w.trace_digest(),
        "exc": w.sut_exception,
    }
    try:
        from .sim import tree_digest

        res["tree"] = tree_digest(w.final_tree) if getattr(w, "final_tree", None) is not None else None
    except Exception:
        res["tree"] = None
    if w.clock.n_jumps:
        res["fired"]["clock-jump"] = w.clock.n_jumps
    if w.fs.n_write_faults:
        res["fired"]["dump-io-failure"] = w.fs.n_write_faults
    res["nontrivial"] = bool(mod.nontrivial(w)) if hasattr(mod, "nontrivial") else w.steps_done > 0
    if extra:
        res.update(extra)
    return res


def default_run(mod, plan):
    from . import build

    w = build.execute(plan, mod.MONITORS, wall_s=getattr(mod, "WALL_S", 60.0))
    try:
        return summarize_world(w, mod, plan)
    finally:
        w.dispose()


def run_plan(prop, plan):
    mod = load_prop(prop)
    if hasattr(mod, "run"):
        return mod.run(plan)
    return default_run(mod, plan)


def _task(args):
    prop, verif_seed, idxs, tier = args
    mod = load_prop(prop)
    out = []
    for i in idxs:
        seed = P.run_seed(verif_seed, prop, i)
        try:
            plan = mod.gen(seed, tier)
            r = run_plan(prop, plan)
            r["index"] = i
            r["sample"] = mod.sample(plan) if hasattr(mod, "sample") else brief(plan)
        except BaseException as e:  # harness failure for this seed
            r = {"seed": seed, "index": i, "outcome": "harness-error", "violations": [], "fired": {}, "probes": {},
                 "abstract": "", "states": [], "sim_time": 0.0, "requests": 0, "invocations": 0, "steps": 0,
                 "consults": 0, "trace": "", "nontrivial": False,
                 "exc": "".join(traceback.format_exception(type(e), e, e.__traceback__))[-3000:]}
        out.append(r)
    return out


def brief(plan):
    b = {"seed": plan["seed"], "entry": plan.get("entry"), "dim": plan.get("dim"), "box_kind": plan.get("box_kind"),
         "maximize": plan.get("maximize"), "objective": plan.get("objective", {}).get("kind")}
    if "levels" in plan:
        b["engines"] = [l["engine"] + (":" + l["ea"] if l["engine"] == "ea" else "") for l in plan["levels"]]
        b["gsc"] = plan["gsc"]["kind"]
        b["lsc"] = [l["lsc"]["kind"] for l in plan["levels"]]
        sp = plan["sprout"]
        b["sprout"] = sp.get("factory") or (sp["generator"]["kind"] + "+" + ",".join(
            f["kind"] for f in sp["deme_filters"] + sp["tree_filters"]))
        b["stacks"] = [[l["kind"] for l in s["layers"]] for s in plan["stacks"]]
        b["options"] = plan.get("options")
    if "minimize" in plan:
        b["minimize"] = plan["minimize"]
    b["faults"] = plan.get("faults")
    return b


# ------------------------------------------------------------------------------------------
def ensure_env():
    """Re-exec once with a pinned hash seed and single-threaded BLAS."""
    if os.environ.get("PYTHONHASHSEED") != "0" or os.environ.get("HMSSIM_REEXEC") != "1":
        env = dict(os.environ)
        env["PYTHONHASHSEED"] = "0"
        env["HMSSIM_REEXEC"] = "1"
        for v in ("OMP_NUM_THREADS", "OPENBLAS_NUM_THREADS", "MKL_NUM_THREADS"):
            env[v] = "1"
        os.execve(sys.executable, [sys.executable] + sys.argv, env)


def run_batch(prop, tier, verif_seed, n_runs, budget_s, workers):
    """Returns list of per-run result dicts (ordered by index) and whether the batch was cut by the budget."""
    load_prop(prop)  # warm import (pyhms etc.) before fork
    from . import build  # noqa: F401

    t0 = time.time()
    chunk = max(1, min(16, n_runs // (workers * 4) or 1))
    tasks = [list(range(i, min(n_runs, i + chunk))) for i in range(0, n_runs, chunk)]
    results = []
    cut = False
    ctx = mp.get_context("fork")
    with cf.ProcessPoolExecutor(max_workers=workers, mp_context=ctx, initializer=_worker_init) as ex:
        pending = set()
        it = iter(tasks)
        exhausted = False
        while True:
            while not exhausted and len(pending) < workers * 2:
                if time.time() - t0 > budget_s:
                    cut = True
                    exhausted = True
                    break
                try:
                    idxs = next(it)
                except StopIteration:
                    exhausted = True
                    break
                pending.add(ex.submit(_task, (prop, verif_seed, idxs, tier)))
            if not pending:
                break
            done, pending = cf.wait(pending, timeout=300, return_when=cf.FIRST_COMPLETED)
            if not done:
                raise RuntimeError("worker pool stalled for 300 s")
            for fut in done:
                results.extend(fut.result())
    results.sort(key=lambda r: r["index"])
    return results, cut, time.time() - t0


def write_replay(prop, plan, violation, trace, suffix=""):
    os.makedirs(os.path.join(OUT, "replays"), exist_ok=True)
    path = os.path.join(OUT, "replays", "%s-%s%s.json" % (prop, plan["seed"], suffix))
    with open(path, "w") as f:
        json.dump({"property": prop, "class_key": violation["class_key"], "violation": violation, "trace": trace,
                   "plan": plan}, f, indent=1, sort_keys=True, default=str)
    return path


def check(prop, tier):
    ensure_env()
    mod = load_prop(prop)
    verif_seed = int(os.environ.get("VERIF_SEED", "20260926"))
    workers = int(os.environ.get("VERIF_WORKERS", str(os.cpu_count() or 4)))
    n_runs = mod.N_QUICK if tier == "quick" else mod.N_THOROUGH
    if os.environ.get("VERIF_RUNS"):
        n_runs = int(os.environ["VERIF_RUNS"])
    budget_s = float(os.environ.get("VERIF_BUDGET_S", "120" if tier == "quick" else "2400"))
    print("check %s tier=%s VERIF_SEED=%d runs=%d workers=%d pyhms=%s" % (prop, tier, verif_seed, n_runs, workers,
                                                                        hmssim.PYHMS_SRC), flush=True)
    t_check0 = time.time()
    results, cut, wall = run_batch(prop, tier, verif_seed, n_runs, budget_s, workers)
    kf = known_findings()
    outcomes = {}
    fired_runs, fired_tot, probes = {}, {}, {}
    abstract, states = set(), set()
    nontrivial_abstract = set()
    sim_time = 0.0
    tot_req = tot_inv = tot_steps = tot_cons = 0
    viol_known, viol_new = {}, {}
    harness = []
    samples = []
    for r in results:
        outcomes[r["outcome"]] = outcomes.get(r["outcome"], 0) + 1
        for k, v in r["fired"].items():
            fired_runs[k] = fired_runs.get(k, 0) + 1
            fired_tot[k] = fired_tot.get(k, 0) + v
        for k, v in r["probes"].items():
            probes[k] = probes.get(k, 0) + v
        abstract.add(r["abstract"])
        states.update(r["states"])
        if r.get("nontrivial"):
            nontrivial_abstract.add(r["abstract"])
        sim_time += r["sim_time"]
        tot_req += r["requests"]
        tot_inv += r["invocations"]
        tot_steps += r["steps"]
        tot_cons += r["consults"]
        if r["outcome"] == "harness-error":
            harness.append(r)
        for v in r["violations"]:
            if v["property"] != prop:
                continue
            k = v["class_key"]
            tgt = viol_known if is_known(prop, k, kf) else viol_new
            tgt.setdefault(k, []).append((r, v))
        if len(samples) < 5 and r.get("nontrivial") and "sample" in r:
            samples.append(r["sample"])
    if hasattr(mod, "post_batch"):
        extra_v, extra_p = mod.post_batch(results, tier, verif_seed)
        for k, v in extra_p.items():
            probes[k] = probes.get(k, 0) + v
        for r, v in extra_v:
            k = v["class_key"]
            r["violations"].append(v)
            tgt = viol_known if is_known(prop, k, kf) else viol_new
            tgt.setdefault(k, []).append((r, v))
    if not samples and results:
        samples.append(results[0].get("sample", {"seed": results[0]["seed"]}))

    exit_code = 0
    # known findings
    for k, lst in sorted(viol_known.items()):
        e = is_known(prop, k, kf)
        print("KNOWN-FINDING: property=%s %s [class %s; %d of %d runs; e.g. seed %s]" % (
            prop, e.get("what", ""), k, len({id(r) for r, _ in lst}), len(results), lst[0][0]["seed"]), flush=True)
    # new violations
    replays = []
    if viol_new:
        from . import shrink as S

        for k, lst in sorted(viol_new.items())[:4]:
            r, v = lst[0]
            plan = mod.gen(r["seed"], tier)
            try:
                small, v2, trace = S.shrink(prop, plan, k, budget=int(os.environ.get("VERIF_SHRINK", "600")))
            except Exception:
                small, v2, trace = plan, v, r.get("trace", "")
            path = write_replay(prop, small, v2, trace)
            replays.append(path)
            print("VIOLATION property=%s replay=%s" % (prop, path), flush=True)
            print("  class=%s seed=%s runs_affected=%d detail=%s" % (k, r["seed"], len(lst),
                                                                    json.dumps(v2.get("detail"), default=str)[:600]),
                  flush=True)
        exit_code = 1
    if harness:
        print("HARNESS-ERROR in %d runs, e.g. seed %s:\n%s" % (len(harness), harness[0]["seed"], harness[0]["exc"]),
              flush=True)
        if exit_code == 0:
            exit_code = 2
    excs = [r for r in results if r["outcome"] == "exception"]
    for r in excs[:3]:
        print("SUT-EXCEPTION (seed %s, not judged by this property): %s" % (r["seed"], (r.get("exc") or "")[-700:]),
              flush=True)
    n_timeouts = outcomes.get("timeout", 0)
    if n_timeouts:
        print("WARNING: %d runs hit the wall-clock guard (inconclusive)" % n_timeouts, flush=True)

    zero_probes = [p for p in getattr(mod, "EXPECTED_PROBES", []) if not probes.get(p)]
    for p in zero_probes:
        print("WARNING: probe %r stuck at zero" % p, flush=True)

    wall = time.time() - t_check0
    evidence = {
        "property_id": prop,
        "tier": tier,
        "seed": verif_seed,
        "level": LEVEL,
        "wall_s": round(wall, 3),
        "violations": sum(len(l) for l in viol_new.values()),
        "coverage": {
            "evaluations": len(results),
            "distinct_nontrivial": len(nontrivial_abstract),
            "rule": getattr(mod, "RULE", "") + " A run counts as non-trivial when the property's monitor made at least "
                    "one non-vacuous judgement (module-specific, see 'nontrivial_rule'); distinct = distinct abstract "
                    "traces (sequence of control events (consult site, level, engine class, verdict), LSC verdicts and "
                    "per-round level sizes; evaluation events collapsed).",
            "nontrivial_rule": getattr(mod, "NONTRIVIAL_RULE", "at least one completed metaepoch"),
            "samples": samples,
            "runs_requested": n_runs,
            "cut_by_budget": cut,
            "runs_per_hour": int(len(results) / wall * 3600) if wall > 0 else 0,
            "outcomes": outcomes,
            "simulated_seconds": sim_time,
            "simulated_metaepochs": tot_steps,
            "objective_requests": tot_req,
            "objective_invocations": tot_inv,
            "gsc_consults": tot_cons,
            "fault_kinds_runs_fired": fired_runs,
            "fault_kinds_total_firings": fired_tot,
            "distinct_interleavings": len(abstract),
            "distinct_boundary_states": len(states),
            "probes": probes,
            "probes_stuck_at_zero": zero_probes,
            "known_findings_seen": {k: len(v) for k, v in viol_known.items()},
            "new_violation_classes": {k: len(v) for k, v in viol_new.items()},
            "replays": replays,
            "real_components": REAL_COMPONENTS,
            "fake_components": FAKE_COMPONENTS,
            "seeds": "H(VERIF_SEED=%d, %s, i) for i in [0, %d)" % (verif_seed, prop, len(results)),
        },
        "assumptions": getattr(mod, "ASSUMPTIONS", []) + [
            "objectives are deterministic synthetic functions (pure python float arithmetic)",
            "virtual clock / fake file system / substituted OS entropy are faithful to what pyhms uses of them",
            "sampling, not enumeration: a clean batch is evidence, not proof",
        ],
    }
    os.makedirs(os.path.join(OUT, "evidence"), exist_ok=True)
    with open(os.path.join(OUT, "evidence", prop + ".json"), "w") as f:
        json.dump(evidence, f, indent=1, sort_keys=True, default=str)
    print("%s: %d runs in %.1fs (%d/h), outcomes=%s, distinct traces=%d (non-trivial %d), states=%d, faults=%s" % (
        prop, len(results), wall, evidence["coverage"]["runs_per_hour"], outcomes, len(abstract),
        len(nontrivial_abstract), len(states), fired_runs), flush=True)
    print("%s: probes=%s" % (prop, probes), flush=True)
    if exit_code == 0:
        print("%s: OK (no unlisted violation)" % prop, flush=True)
    return exit_code


def replay(path):
    ensure_env()
    with open(path) as f:
        rep = json.load(f)
    prop = rep["property"]
    load_prop(prop)
    _worker_init_quiet()
    r = run_plan(prop, rep["plan"])
    got = [v for v in r["violations"] if v["property"] == prop and v["class_key"] == rep["class_key"]]
    same_trace = (r.get("trace") == rep.get("trace"))
    out = sys.stderr
    print("replay %s: outcome=%s violations=%s trace_match=%s" % (path, r["outcome"],
                                                                 [v["class_key"] for v in r["violations"]], same_trace),
          file=out)
    if got:
        e = is_known(prop, rep["class_key"])
        if e:
            print("KNOWN-FINDING: property=%s %s" % (prop, e.get("what", "")), file=out)
            sys.__stdout__.write("KNOWN-FINDING: property=%s %s\n" % (prop, e.get("what", "")))
            return 0
        os.write(_REAL_STDOUT[0], ("VIOLATION property=%s replay=%s\n" % (prop, path)).encode())
        print(json.dumps(got[0], default=str)[:1500], file=out)
        return 1
    return 0


_REAL_STDOUT = [1]


def _worker_init_quiet():
    # keep a handle on the real stdout, then silence fd 1 (structlog)
    _REAL_STDOUT[0] = os.dup(1)
    devnull = os.open(os.devnull, os.O_WRONLY)
    sys.stdout.flush()
    os.dup2(devnull, 1)
