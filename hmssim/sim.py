"""The simulator core: World, taps, seams.

All taps are transparent pass-through objects of the right pyhms base class.  They
are importable (dill pickles them by reference) and hold only a key into the
registry ``_WORLDS`` so that a snapshot of the tree does not drag the event log
along and a restored tree re-attaches to the running simulator.
"""
import hashlib
import io
import os
import random
import struct
import sys
import time as _time_mod

import hmssim  # noqa: F401  (env pinning)
import numpy as np

from pyhms.core.problem import (
    EvalCountingProblem,
    EvalCutoffProblem,
    FunctionProblem,
    PrecisionCutoffProblem,
    Problem,
    ProblemWrapper,
    StatsGatheringProblem,
)
from pyhms.demes.abstract_deme import AbstractDeme
from pyhms.sprout.sprout_filters import DemeLevelCandidatesFilter, TreeLevelCandidatesFilter
from pyhms.sprout.sprout_generators import SproutCandidatesGenerator
from pyhms.sprout.sprout_mechanisms import SproutMechanism
from pyhms.stop_conditions import GlobalStopCondition, LocalStopCondition
from pyhms.tree import DemeTree
import pyhms.tree as _pyhms_tree
import pyhms.hms  # noqa: F401

_pyhms_hms = sys.modules["pyhms.hms"]

_WORLDS = {}
_CURRENT = [None]


def world(key):
    return _WORLDS[key]


class SimCrash(BaseException):
    """Injected process crash (unwinds run())."""


class SimCap(BaseException):
    """A cap on consults / evaluations / metaepochs was reached: run is inconclusive."""


class SimTimeout(BaseException):
    """Wall-clock guard fired."""


class HarnessError(Exception):
    """Inconsistency inside the simulator itself (never a property violation)."""


# --------------------------------------------------------------------------------------
# virtual clock
# --------------------------------------------------------------------------------------
class VirtualClock:
    def __init__(self, start, cost, jumps):
        self.now = float(start)
        self.start = float(start)
        self.cost = float(cost)
        # jumps: {call_index: seconds}
        self.jumps = {int(k): float(v) for k, v in (jumps or {}).items()}
        self.n_jumps = 0
        self.n_zero = 0

    def on_call(self, idx):
        j = self.jumps.get(idx)
        if j is not None:
            self.n_jumps += 1
            if j == 0.0:
                self.n_zero += 1
                return
            self.now += j
            return
        self.now += self.cost

    def read(self):
        return self.now


# --------------------------------------------------------------------------------------
# fake file system
# --------------------------------------------------------------------------------------
class _FakeWriter(io.BytesIO):
    def __init__(self, fs, path, fail_after):
        super().__init__()
        self._fs = fs
        self._path = path
        self._fail_after = fail_after
        self._written = 0

    def write(self, b):
        if self._fail_after is not None and self._written + len(b) > self._fail_after:
            keep = max(0, self._fail_after - self._written)
            super().write(bytes(b)[:keep])
            self._written += keep
            self._fs.n_write_faults += 1
            import errno

            raise OSError(errno.ENOSPC, "No space left on device (injected)")
        self._written += len(b)
        return super().write(b)

    def close(self):
        if not self.closed:
            self._fs.files[self._path] = self.getvalue()
        super().close()


class FakeFS:
    def __init__(self):
        self.files = {}
        self.prefixes = ["snap"]
        self.fail_next_write_after = None
        self.n_write_faults = 0
        self.n_opens = 0

    def owns(self, path):
        """Paths this file system is responsible for: everything derived from a snapshot name it has seen."""
        return any(path.startswith(pfx) for pfx in self.prefixes)

    def open(self, path, mode="r", *a, **k):
        self.n_opens += 1
        base = str(path).split(".")[0]
        if base and base not in self.prefixes:
            self.prefixes.append(base)
        if "w" in mode:
            fa = self.fail_next_write_after
            self.fail_next_write_after = None
            return _FakeWriter(self, path, fa)
        if path not in self.files:
            raise FileNotFoundError(path)
        return io.BytesIO(self.files[path])


# --------------------------------------------------------------------------------------
# helpers
# --------------------------------------------------------------------------------------
def gbytes(genome):
    return np.ascontiguousarray(genome, dtype=np.float64).tobytes()


def fbytes(v):
    try:
        return struct.pack("<d", float(v))
    except (TypeError, ValueError):
        return repr(v).encode()


def calling_deme(depth=2):
    f = sys._getframe(depth)
    while f is not None:
        code = f.f_code
        if code.co_argcount and code.co_varnames[0] == "self":
            s = f.f_locals.get("self")
            if isinstance(s, AbstractDeme):
                return s
        f = f.f_back
    return None


class Request:
    __slots__ = ("seq", "deme", "level", "g", "value", "invoked", "step")

    def __init__(self, seq, deme, level, g, step):
        self.seq = seq
        self.deme = deme
        self.level = level
        self.g = g
        self.value = None
        self.invoked = 0
        self.step = step


class DemeRec:
    __slots__ = ("ord", "obj", "first_seq", "created_step", "created_phase", "restored")

    def __init__(self, ord_, obj, first_seq, step, phase):
        self.ord = ord_
        self.obj = obj
        self.first_seq = first_seq
        self.created_step = step
        self.created_phase = phase
        self.restored = False


# --------------------------------------------------------------------------------------
# taps
# --------------------------------------------------------------------------------------
class ObjectiveTap:
    """The callable inside the innermost FunctionProblem."""

    def __init__(self, key, stack_id, fn):
        self.key = key
        self.stack_id = stack_id
        self.fn = fn

    def __call__(self, x, *a, **k):
        w = _WORLDS[self.key]
        v = self.fn(x, *a, **k)
        w.on_invocation(self, x, v)
        return v


class ProblemTap(ProblemWrapper):
    """Transparent wrapper inserted between all layers of a stack and on top of it."""

    def __init__(self, inner, key, stack_id, pos, top):
        super().__init__(inner)
        self.key = key
        self.stack_id = stack_id
        self.pos = pos  # 0 = directly above the FunctionProblem, increasing upwards
        self.top = top

    def evaluate(self, phenome, *a, **k):
        w = _WORLDS[self.key]
        tok = w.tap_enter(self, phenome)
        ret = self._inner.evaluate(phenome, *a, **k)
        w.tap_exit(self, tok, phenome, ret)
        return ret


class _TopTapMixin:
    """Top-of-stack tap that is an instance of the *same class* as the user's top layer (so that isinstance
    checks made by pyhms on ``level.problem`` see what they would see without the simulator).  It carries no
    state of that class: every attribute it does not have itself is read from the real layer underneath."""

    def _tap_init(self, inner, key, stack_id, pos, top):
        d = self.__dict__
        d["_inner"] = inner
        d["key"] = key
        d["stack_id"] = stack_id
        d["pos"] = pos
        d["top"] = top

    def evaluate(self, phenome, *a, **k):
        w = _WORLDS[self.key]
        tok = w.tap_enter(self, phenome)
        ret = self._inner.evaluate(phenome, *a, **k)
        w.tap_exit(self, tok, phenome, ret)
        return ret

    def worse_than(self, a, b):
        return self._inner.worse_than(a, b)

    def equivalent(self, a, b):
        return self._inner.equivalent(a, b)

    @property
    def bounds(self):
        return self._inner.bounds

    @property
    def maximize(self):
        return self._inner.maximize

    def __getattr__(self, name):
        if name in ("_inner", "key", "stack_id", "pos", "top") or name.startswith("__"):
            raise AttributeError(name)
        return getattr(self.__dict__["_inner"], name)

    def __str__(self):
        return str(self._inner)


class StatsProblemTap(_TopTapMixin, StatsGatheringProblem):
    def __init__(self, inner, key, stack_id, pos, top):
        self._tap_init(inner, key, stack_id, pos, top)

    @property
    def n_evaluations(self):
        return self._inner.n_evaluations

    @property
    def durations(self):
        return self._inner.durations

    @property
    def duration_stats(self):
        return self._inner.duration_stats


class CountingProblemTap(_TopTapMixin, EvalCountingProblem):
    def __init__(self, inner, key, stack_id, pos, top):
        self._tap_init(inner, key, stack_id, pos, top)

    @property
    def n_evaluations(self):
        return self._inner.n_evaluations


class CutoffProblemTap(_TopTapMixin, EvalCutoffProblem):
    def __init__(self, inner, key, stack_id, pos, top):
        self._tap_init(inner, key, stack_id, pos, top)

    @property
    def n_evaluations(self):
        return self._inner.n_evaluations


class PrecisionProblemTap(_TopTapMixin, PrecisionCutoffProblem):
    def __init__(self, inner, key, stack_id, pos, top):
        self._tap_init(inner, key, stack_id, pos, top)

    @property
    def n_evaluations(self):
        return self._inner.n_evaluations


class FunctionProblemTap(_TopTapMixin, FunctionProblem):
    """Top tap over a bare FunctionProblem (a level without any wrapper)."""

    def __init__(self, inner, key, stack_id, pos, top):
        self._tap_init(inner, key, stack_id, pos, top)


TOP_TAP_CLASSES = (StatsProblemTap, CountingProblemTap, CutoffProblemTap, PrecisionProblemTap, FunctionProblemTap)


def top_tap_class(layer):
    t = type(layer)
    if t is StatsGatheringProblem:
        return StatsProblemTap
    if t is EvalCutoffProblem:
        return CutoffProblemTap
    if t is PrecisionCutoffProblem:
        return PrecisionProblemTap
    if t is EvalCountingProblem:
        return CountingProblemTap
    if t is FunctionProblem:
        return FunctionProblemTap
    return ProblemTap


class GscTap(GlobalStopCondition):
    def __init__(self, inner, key):
        self.inner = inner
        self.key = key

    def __call__(self, tree):
        w = _WORLDS[self.key]
        if w.in_monitor:
            return bool(self.inner(tree)) or w.stop_flag
        f = sys._getframe(1)
        name = f.f_code.co_name
        s = f.f_locals.get("self")
        if w.manual_boundary:
            # the harness drives the tree with its own `while not gsc(tree): tree.run_step()` loop
            site, deme = "boundary", None
        elif name == "run" and isinstance(s, DemeTree):
            site, deme = "boundary", None
        elif name == "run_step" and isinstance(s, DemeTree):
            site, deme = "presprout", None
        elif isinstance(s, AbstractDeme):
            site, deme = "gen", s
        else:
            d = calling_deme(1)
            if d is not None:
                site, deme = "gen", d
            else:
                site, deme = "other", None
        raw = self.inner(tree)
        if not isinstance(tree, DemeTree):
            # a caller handed something else than the tree to the stop condition: the verdict is passed on as it
            # is, the monitors get the real tree
            w.probe("gsc-consulted-with-non-tree-argument")
            if w.tree is None:
                return bool(raw)
            tree = w.tree
        return w.on_consult(tree, site, deme, raw)

    def __str__(self):
        return str(self.inner)


class LscTap(LocalStopCondition):
    def __init__(self, inner, key, level):
        self.inner = inner
        self.key = key
        self.level = level

    def __call__(self, deme):
        w = _WORLDS[self.key]
        if w.in_monitor:
            return self.inner(deme)
        raw = self.inner(deme)
        return w.on_lsc(deme, raw)

    def __str__(self):
        return str(self.inner)


class GeneratorTap(SproutCandidatesGenerator):
    def __init__(self, inner, key):
        self.inner = inner
        self.key = key

    def __call__(self, tree):
        w = _WORLDS[self.key]
        if w.in_monitor:
            return self.inner(tree)
        res = self.inner(tree)
        w.on_generated(tree, self.inner, res)
        return res

    def __getattr__(self, name):
        if name in ("inner", "key"):
            raise AttributeError(name)
        return getattr(self.inner, name)


class FilterTap(DemeLevelCandidatesFilter, TreeLevelCandidatesFilter):
    def __init__(self, inner, key, chain, index):
        self.inner = inner
        self.key = key
        self.chain = chain
        self.index = index

    def __call__(self, candidates, tree):
        w = _WORLDS[self.key]
        if w.in_monitor:
            return self.inner(candidates, tree)
        before = {d: (list(c.individuals), c.features.nbc_mean_distance) for d, c in candidates.items()}
        w.on_filter_enter(tree, self, before)
        res = self.inner(candidates, tree)
        w.on_filtered(tree, self, before, res)
        return res

    def __getattr__(self, name):
        if name in ("inner", "key", "chain", "index"):
            raise AttributeError(name)
        return getattr(self.inner, name)


class MechanismTap(SproutMechanism):
    def __init__(self, inner, key):
        self.inner = inner
        self.key = key

    def get_seeds(self, tree):
        w = _WORLDS[self.key]
        if w.in_monitor:
            return self.inner.get_seeds(tree)
        w.on_get_seeds_begin(tree)
        res = self.inner.get_seeds(tree)
        w.on_seeds(tree, res)
        return res

    def __getattr__(self, name):
        if name in ("inner", "key"):
            raise AttributeError(name)
        return getattr(self.inner, name)


class EngineProxy:
    def __init__(self, inner, key):
        self.inner = inner
        self.key = key

    def run(self, parents, **kwargs):
        w = _WORLDS[self.key]
        if w.in_monitor:
            return self.inner.run(parents, **kwargs)
        w.on_engine_enter(self, parents, kwargs)
        off = self.inner.run(parents, **kwargs)
        w.on_engine_run(self, parents, kwargs, off)
        return off

    def __getattr__(self, name):
        if name in ("inner", "key"):
            raise AttributeError(name)
        return getattr(self.inner, name)


class EngineTapFactory:
    """Stands in for ``ea_class``: ``create(**params)`` returns a proxy around the real engine."""

    def __init__(self, real_class, key):
        self.real_class = real_class
        self.key = key
        self.__name__ = getattr(real_class, "__name__", "ea")

    def create(self, **kwargs):
        return EngineProxy(self.real_class.create(**kwargs), self.key)


class SimDemeTree(DemeTree):
    """DemeTree whose phases are announced to the simulator.  Behaviour is inherited."""

    def __init__(self, config):
        key = _CURRENT[0]
        w = _WORLDS[key]
        self._sim_key = key
        w.instrument(config)
        w.on_tree_constructing(self)
        super().__init__(config)
        w.on_tree_constructed(self)

    # (the overrides pass arguments and return values through untouched: a changed pyhms may use them)
    def run_step(self, *a, **k):
        w = _WORLDS[self._sim_key]
        if w.shadow:
            return super().run_step(*a, **k)
        w.on_step_begin(self)
        ret = super().run_step(*a, **k)
        w.on_step_end(self)
        return ret

    def run_metaepoch(self, *a, **k):
        w = _WORLDS[self._sim_key]
        if w.shadow:
            return super().run_metaepoch(*a, **k)
        w.on_metaepoch_begin(self)
        ret = super().run_metaepoch(*a, **k)
        w.on_metaepoch_end(self)
        return ret

    def run_sprout(self, *a, **k):
        w = _WORLDS[self._sim_key]
        if w.shadow:
            return super().run_sprout(*a, **k)
        w.on_sprout_begin(self)
        ret = super().run_sprout(*a, **k)
        w.on_sprout_end(self)
        return ret


# --------------------------------------------------------------------------------------
# Monitor base
# --------------------------------------------------------------------------------------
class Monitor:
    """Base class: every hook is optional.  ``w`` is the World."""

    prop = "C00"

    def __init__(self, w):
        self.w = w

    def violate(self, class_key, detail):
        self.w.violate(self.prop, class_key, detail)

    # hooks (all no-ops)
    def on_tree(self, tree):
        pass

    def on_invocation(self, tap, x, v, req):
        pass

    def on_request(self, req):
        pass

    def on_tap_enter(self, tap, phenome):
        pass

    def on_tap_exit(self, tap, phenome, ret):
        pass

    def on_consult(self, tree, site, deme, raw, verdict):
        pass

    def on_lsc(self, deme, raw, verdict):
        pass

    def on_step_begin(self, tree):
        pass

    def on_step_end(self, tree):
        pass

    def on_metaepoch_begin(self, tree):
        pass

    def on_metaepoch_end(self, tree):
        pass

    def on_sprout_begin(self, tree):
        pass

    def on_sprout_end(self, tree):
        pass

    def on_get_seeds_begin(self, tree):
        pass

    def on_generated(self, tree, gen, res):
        pass

    def on_filter_enter(self, tree, ftap, before):
        pass

    def on_filtered(self, tree, ftap, before, res):
        pass

    def on_seeds(self, tree, res):
        pass

    def on_engine_enter(self, proxy, parents, kwargs):
        pass

    def on_engine_run(self, proxy, parents, kwargs, offspring):
        pass

    def on_boundary(self, tree):
        pass

    def on_restart(self, tree):
        pass

    def on_end(self, tree, outcome):
        pass


_HOOKS = [n for n in dir(Monitor) if n.startswith("on_")]


# --------------------------------------------------------------------------------------
# World
# --------------------------------------------------------------------------------------
class World:
    _next_key = [0]

    def __init__(self, plan, monitor_classes=(), keep_log=True):
        World._next_key[0] += 1
        self.key = World._next_key[0]
        _WORLDS[self.key] = self
        self.plan = plan
        self.faults = plan.get("faults", {})
        self.caps = plan.get("caps", {})
        self.seq = 0
        self.in_monitor = 0
        self.manual_boundary = False
        self.shadow = False  # a monitor is stepping a detached copy of the tree: nothing is announced or recorded
        self.tree = None
        self.tree_ready = False
        self.step = 0  # number of run_step calls begun
        self.steps_done = 0
        self.phase = "init"
        self.keep_log = keep_log
        # logs
        self.requests = []  # top-level requests (Request)
        self.calls = []  # objective invocations (seq, stack_id, deme_ord, g, v)
        self.consults = []  # (seq, site, deme_ord, raw, verdict, step)
        self.lscs = []  # (seq, deme_ord, deme_metaepoch, raw, verdict, step)
        self.trace = hashlib.sha256()
        self.abstract = []  # abstract trace tokens
        self.states = set()  # abstract boundary states
        self.n_consults = 0
        self.n_boundaries = 0
        self.n_invocations = 0
        self.n_requests = 0
        self.stop_flag = False
        self.first_true_consult = None  # index into consults
        self.restarts = 0
        self.violations = []
        self.fired = {}  # fault kind -> count
        self.probes = {}  # probe name -> count
        self.outcome = None
        self.sut_exception = None
        self._req_stack = []
        self._tap_stack = []
        self.demes = {}  # id(obj) -> DemeRec
        self.deme_list = []
        self.layer_logs = {}  # (stack_id, pos) -> [n_in, n_forwarded_below...] used by C16
        self.stacks = []  # built by build.py: per stack dict(layers=[...], taps=[...], fn_problem, otap)
        self.level_stack = []
        self.clock = VirtualClock(
            plan.get("clock", {}).get("start", 1000.0),
            plan.get("clock", {}).get("cost", 1e-3),
            plan.get("clock", {}).get("jumps"),
        )
        self.fs = FakeFS()
        self.entropy = random.Random(plan.get("entropy_seed", 12345))
        self.monitors = [mc(self) for mc in monitor_classes]
        self._hooks = {}
        for h in _HOOKS:
            base = getattr(Monitor, h)
            self._hooks[h] = [getattr(m, h) for m in self.monitors if getattr(type(m), h) is not base]
        self._patched = []
        self.lsc_inject = {(int(a), int(b)) for a, b in self.faults.get("lsc_inject", [])}
        self.stop_at = self.faults.get("stop_at_consult")
        self.extra = {}  # free-form results for twin checks

    # ---------------------------------------------------------------- utilities
    def dispose(self):
        _WORLDS.pop(self.key, None)

    def fire(self, kind, n=1):
        self.fired[kind] = self.fired.get(kind, 0) + n

    def probe(self, name, n=1):
        self.probes[name] = self.probes.get(name, 0) + n

    def violate(self, prop, class_key, detail):
        if len(self.violations) < 50:
            self.violations.append({"property": prop, "class_key": class_key, "detail": detail, "seq": self.seq,
                                    "step": self.step})

    def _ev(self, *parts):
        self.seq += 1
        if self.keep_log:
            self.trace.update(repr(parts).encode())
        return self.seq

    def _dispatch(self, hook, *args):
        hs = self._hooks[hook]
        if not hs:
            return
        self.in_monitor += 1
        try:
            for h in hs:
                h(*args)
        except Exception as e:
            import traceback

            raise HarnessError("monitor hook %s failed:\n%s" % (
                hook, "".join(traceback.format_exception(type(e), e, e.__traceback__))[-3000:]))
        finally:
            self.in_monitor -= 1

    def deme_rec(self, deme):
        r = self.demes.get(id(deme))
        if r is None:
            r = DemeRec(len(self.deme_list), deme, self.seq, self.step, self.phase)
            self.demes[id(deme)] = r
            self.deme_list.append(r)
        return r

    def deme_ord(self, deme):
        return self.deme_rec(deme).ord

    # ---------------------------------------------------------------- seams
    def install(self):
        clock = self.clock
        t = _time_mod
        for name in ("time", "perf_counter", "monotonic", "process_time"):
            self._patched.append((t, name, getattr(t, name)))
            setattr(t, name, clock.read)
        for name in ("time_ns", "perf_counter_ns", "monotonic_ns"):
            self._patched.append((t, name, getattr(t, name)))
            setattr(t, name, lambda: int(clock.read() * 1e9))
        real_seed = np.random.seed
        ent = self.entropy
        me = self

        def seed(s=None):
            if s is None:
                me.fire("os-entropy-substituted")
                s = ent.getrandbits(32)
            return real_seed(s)

        self._patched.append((np.random, "seed", real_seed))
        np.random.seed = seed
        self._had_open = "open" in _pyhms_tree.__dict__
        _pyhms_tree.open = self.fs.open
        # os-level operations on snapshot files go to the fake file system too (everything else stays real)
        fs = self.fs
        real = {n: getattr(os, n) for n in ("replace", "rename", "remove", "unlink")}
        real_p = {n: getattr(os.path, n) for n in ("exists", "isfile", "getsize")}

        def _is_fake(pth):
            return isinstance(pth, str) and (pth in fs.files or fs.owns(pth))

        def mk_move(name):
            def move(src, dst, *a, **k):
                if _is_fake(src) or _is_fake(dst):
                    if src not in fs.files:
                        raise FileNotFoundError(src)
                    fs.files[dst] = fs.files.pop(src)
                    return None
                return real[name](src, dst, *a, **k)
            return move

        def mk_del(name):
            def rm(pth, *a, **k):
                if _is_fake(pth):
                    if pth not in fs.files:
                        raise FileNotFoundError(pth)
                    del fs.files[pth]
                    return None
                return real[name](pth, *a, **k)
            return rm

        for n in ("replace", "rename"):
            self._patched.append((os, n, real[n]))
            setattr(os, n, mk_move(n))
        for n in ("remove", "unlink"):
            self._patched.append((os, n, real[n]))
            setattr(os, n, mk_del(n))
        self._patched.append((os.path, "exists", real_p["exists"]))
        os.path.exists = lambda pth: (pth in fs.files) if _is_fake(pth) else real_p["exists"](pth)
        self._patched.append((os.path, "isfile", real_p["isfile"]))
        os.path.isfile = lambda pth: (pth in fs.files) if _is_fake(pth) else real_p["isfile"](pth)
        self._patched.append((os.path, "getsize", real_p["getsize"]))
        os.path.getsize = lambda pth: len(fs.files[pth]) if (_is_fake(pth) and pth in fs.files) else real_p["getsize"](pth)
        self._patched.append((_pyhms_hms, "DemeTree", _pyhms_hms.DemeTree))
        _pyhms_hms.DemeTree = SimDemeTree
        _CURRENT[0] = self.key

    def uninstall(self):
        for obj, name, val in reversed(self._patched):
            setattr(obj, name, val)
        self._patched = []
        if not getattr(self, "_had_open", False) and "open" in _pyhms_tree.__dict__:
            del _pyhms_tree.open
        _CURRENT[0] = None

    # ---------------------------------------------------------------- instrumentation
    def instrument(self, config):
        """Insert taps into a TreeConfig (in place).  Idempotent per object."""
        key = self.key
        if not isinstance(config.gsc, GscTap):
            config.gsc = GscTap(config.gsc, key)
        # problem stacks
        seen = {}
        for li, lvl in enumerate(config.levels):
            p = lvl.problem
            if id(p) in seen:
                lvl.problem = seen[id(p)][0]
                self.level_stack.append(seen[id(p)][1])
                continue
            if isinstance(p, (ProblemTap,) + TOP_TAP_CLASSES) and "stack_id" in p.__dict__:
                raise HarnessError("a problem stack instrumented by another world was passed in")
            stack_id = len(self.stacks)
            top = self._instrument_stack(p, stack_id)
            seen[id(p)] = (top, stack_id)
            lvl.problem = top
            self.level_stack.append(stack_id)
        for li, lvl in enumerate(config.levels):
            if not isinstance(lvl.lsc, LscTap):
                lvl.lsc = LscTap(lvl.lsc, key, li)
            ea = lvl.__dict__.get("ea_class")
            if ea is not None and not isinstance(ea, EngineTapFactory):
                lvl.ea_class = EngineTapFactory(ea, key)
        mech = config.sprout_mechanism
        if mech is not None:
            # a mechanism object may legally be shared by several trees (test/config.py does it): taps that are
            # already there are re-keyed to this world instead of being stacked
            real = mech.inner if isinstance(mech, MechanismTap) else mech
            if isinstance(real.candidates_generator, GeneratorTap):
                real.candidates_generator.key = key
            else:
                real.candidates_generator = GeneratorTap(real.candidates_generator, key)
            for chain_name in ("deme_filter_chain", "tree_filter_chain"):
                chain = []
                for i, f in enumerate(getattr(real, chain_name)):
                    if isinstance(f, FilterTap):
                        f.__dict__["key"] = key
                        chain.append(f)
                    else:
                        chain.append(FilterTap(f, key, chain_name.split("_")[0], i))
                setattr(real, chain_name, chain)
            config.sprout_mechanism = MechanismTap(real, key)
        self.config = config

    def _instrument_stack(self, top_problem, stack_id):
        # collect layers top -> bottom
        layers = []
        p = top_problem
        while isinstance(p, ProblemWrapper) and not isinstance(p, FunctionProblem):
            layers.append(p)
            p = p._inner
        if not isinstance(p, FunctionProblem):
            raise HarnessError("innermost problem is not a FunctionProblem: %r" % (p,))
        fnp = p
        if not isinstance(fnp.fitness_function, ObjectiveTap):
            fnp.fitness_function = ObjectiveTap(self.key, stack_id, fnp.fitness_function)
        else:
            fnp.fitness_function.stack_id = stack_id
        layers.reverse()  # bottom -> top
        taps = []
        below = fnp
        pos = 0
        for layer in layers:
            tap = ProblemTap(below, self.key, stack_id, pos, False)
            taps.append(tap)
            layer._inner = tap
            below = layer
            pos += 1
        cls = top_tap_class(below)
        top = cls(below, self.key, stack_id, pos, True)
        taps.append(top)
        self.stacks.append({"layers": layers, "taps": taps, "fnp": fnp, "otap": fnp.fitness_function,
                            "n_in": [0] * len(taps), "n_inv": 0, "refused_genomes": {}})
        return top

    # ---------------------------------------------------------------- evaluation path
    def tap_enter(self, tap, phenome):
        if self.shadow:
            return None
        st = self.stacks[tap.stack_id]
        st["n_in"][tap.pos] += 1
        if self._hooks["on_tap_enter"]:
            self._dispatch("on_tap_enter", tap, phenome)
        if tap.top and not self.in_monitor:
            deme = calling_deme(3)
            g = gbytes(phenome)
            if deme is not None:
                rec = self.deme_rec(deme)
                d_ord, lvl = rec.ord, deme._level
            else:
                d_ord, lvl = -1, -1
            seq = self._ev("R", d_ord, lvl, g)
            req = Request(seq, d_ord, lvl, g, self.step)
            self._req_stack.append(req)
            self.n_requests += 1
            max_ev = self.caps.get("evals")
            if max_ev is not None and self.n_requests > max_ev:
                self._req_stack.pop()
                raise SimCap("evals")
            return req
        return None

    def tap_exit(self, tap, tok, phenome, ret):
        if self.shadow:
            return
        if self._hooks["on_tap_exit"]:
            self._dispatch("on_tap_exit", tap, phenome, ret)
        if tok is not None:
            req = self._req_stack.pop()
            req.value = ret
            self._ev("r", fbytes(ret), req.invoked)
            self.requests.append(req)
            if not req.invoked:
                self.stacks[tap.stack_id]["refused_genomes"].setdefault((req.deme, req.g), []).append(req.seq)
                self.fire("budget-refusal")
            self._dispatch("on_request", req)

    def on_invocation(self, otap, x, v):
        if self.shadow:
            return
        self.n_invocations += 1
        self.clock.on_call(self.n_invocations)
        if otap.stack_id < len(self.stacks):
            self.stacks[otap.stack_id]["n_inv"] += 1
        else:
            self.probe("objective-invoked-before-the-tree-existed")
        req = self._req_stack[-1] if self._req_stack else None
        if req is not None:
            req.invoked += 1
        g = gbytes(x)
        seq = self._ev("I", otap.stack_id, g, fbytes(v))
        d = req.deme if req is not None else -1
        self.calls.append((seq, otap.stack_id, d, g, v))
        if self._hooks["on_invocation"]:
            self._dispatch("on_invocation", otap, x, v, req)

    # ---------------------------------------------------------------- consults
    def on_consult(self, tree, site, deme, raw):
        self.n_consults += 1
        idx = self.n_consults
        if self.stop_at is not None and idx == self.stop_at and not self.stop_flag:
            self.stop_flag = True
            if not raw:
                self.fire("external-stop-signal")
        verdict = bool(raw) or self.stop_flag
        d_ord = self.deme_ord(deme) if deme is not None else -1
        seq = self._ev("C", site, d_ord, bool(raw), verdict)
        self.consults.append((seq, site, d_ord, bool(raw), verdict, self.step))
        if verdict and self.first_true_consult is None:
            self.first_true_consult = len(self.consults) - 1
        self.abstract.append((site[0], deme._level if deme is not None else -1,
                              type(deme).__name__ if deme is not None else "", verdict))
        if site == "boundary":
            self.n_boundaries += 1
            self.phase = "boundary"
        self._dispatch("on_consult", tree, site, deme, bool(raw), verdict)
        if site == "boundary":
            self._abstract_state(tree, verdict)
            self._dispatch("on_boundary", tree)
        mc = self.caps.get("consults")
        if mc is not None and idx > mc:
            raise SimCap("consults")
        crash = self.faults.get("crash_at_consult")
        if crash and self.restarts < len(crash) and idx == crash[self.restarts]:
            self.fire("crash")
            raise SimCrash(idx)
        return verdict

    def _abstract_state(self, tree, verdict):
        try:
            per = []
            for lv in tree.levels:
                a = sum(1 for d in lv if d._active and not d._hibernating)
                h = sum(1 for d in lv if d._active and d._hibernating)
                i = sum(1 for d in lv if not d._active)
                per.append((min(a, 5), min(h, 3), min(i, 5)))
            refused = any(st["refused_genomes"] for st in self.stacks)
            self.states.add((tuple(per), verdict, refused, self.restarts))
        except Exception:
            pass

    def on_lsc(self, deme, raw):
        rec = self.deme_rec(deme)
        me = deme.metaepoch_count
        inj = (rec.ord, me) in self.lsc_inject
        if inj and not raw:
            self.fire("injected-lsc-verdict")
        verdict = bool(raw) or inj
        seq = self._ev("L", rec.ord, me, bool(raw), verdict)
        self.lscs.append((seq, rec.ord, me, bool(raw), verdict, self.step))
        self.abstract.append(("L", deme._level, type(deme).__name__, verdict))
        self._dispatch("on_lsc", deme, bool(raw), verdict)
        return verdict

    # ---------------------------------------------------------------- phases
    def on_tree_constructing(self, tree):
        self.tree = tree
        self.phase = "construct"

    def on_tree_constructed(self, tree):
        self.tree_ready = True
        self.phase = "idle"
        for lv in tree.levels:
            for d in lv:
                self.deme_rec(d)
        self._dispatch("on_tree", tree)

    def on_step_begin(self, tree):
        self.step += 1
        self._ev("S", self.step)
        mm = self.caps.get("metaepochs")
        if mm is not None and self.step > mm:
            self.step -= 1
            raise SimCap("metaepochs")
        self._dispatch("on_step_begin", tree)

    def on_step_end(self, tree):
        self.steps_done += 1
        self._ev("s", self.step)
        self.phase = "idle"
        self._dispatch("on_step_end", tree)

    def on_metaepoch_begin(self, tree):
        self.phase = "metaepoch"
        self._dispatch("on_metaepoch_begin", tree)

    def on_metaepoch_end(self, tree):
        self.phase = "post-metaepoch"
        self._dispatch("on_metaepoch_end", tree)

    def on_sprout_begin(self, tree):
        self.phase = "sprout"
        self._ev("P")
        self._dispatch("on_sprout_begin", tree)

    def on_sprout_end(self, tree):
        self.phase = "post-sprout"
        for lv in tree.levels:
            for d in lv:
                self.deme_rec(d)
        self._ev("p", tuple(len(lv) for lv in tree.levels))
        self.abstract.append(("p", tuple(len(lv) for lv in tree.levels)))
        self._dispatch("on_sprout_end", tree)

    def on_get_seeds_begin(self, tree):
        self._dispatch("on_get_seeds_begin", tree)

    def on_generated(self, tree, gen, res):
        self._ev("G", tuple((self.deme_ord(d), len(c.individuals)) for d, c in res.items()))
        self._dispatch("on_generated", tree, gen, res)

    def on_filter_enter(self, tree, ftap, before):
        self._dispatch("on_filter_enter", tree, ftap, before)

    def on_filtered(self, tree, ftap, before, res):
        self._ev("F", type(ftap.inner).__name__, tuple((self.deme_ord(d), len(c.individuals)) for d, c in res.items()))
        self._dispatch("on_filtered", tree, ftap, before, res)

    def on_seeds(self, tree, res):
        self._ev("D", tuple((self.deme_ord(d), len(c.individuals)) for d, c in res.items()))
        self._dispatch("on_seeds", tree, res)

    def on_engine_enter(self, proxy, parents, kwargs):
        self._dispatch("on_engine_enter", proxy, parents, kwargs)

    def on_engine_run(self, proxy, parents, kwargs, off):
        self._dispatch("on_engine_run", proxy, parents, kwargs, off)

    # ---------------------------------------------------------------- digests
    def trace_digest(self):
        return self.trace.hexdigest()

    def abstract_trace_hash(self):
        # evaluations collapsed: only control events are in self.abstract
        return hashlib.sha256(repr(self.abstract).encode()).hexdigest()[:16]


def deme_digest_parts(deme, with_history=True):
    parts = [deme._id, type(deme).__name__, deme._level, deme._started_at, bool(deme._active), bool(deme._hibernating),
             int(deme.n_evaluations)]
    seed = deme._sprout_seed
    parts.append(None if seed is None else (gbytes(seed.genome), fbytes(seed.fitness)))
    if with_history:
        hist = []
        for me in deme._history:
            hist.append(tuple(tuple((gbytes(i.genome), fbytes(i.fitness)) for i in gen) for gen in me))
        parts.append(tuple(hist))
    parts.append(tuple(c._id for c in deme._children))
    return tuple(parts)


def tree_digest(tree, hexd=True):
    h = hashlib.sha256()
    h.update(repr(tree.metaepoch_count).encode())
    for lv in tree.levels:
        h.update(b"|L")
        for d in lv:
            h.update(repr(deme_digest_parts(d)).encode())
    return h.hexdigest() if hexd else h.digest()


def tree_struct(tree):
    """Comparable python structure of the tree (used for diffs in twin checks)."""
    return {
        "metaepoch_count": tree.metaepoch_count,
        "levels": [[deme_digest_parts(d) for d in lv] for lv in tree.levels],
    }
