"""Determinism self-test of the simulator: same seed -> same trace digest and tree digest,
twice in one process, across worker counts, and in a fresh interpreter with another PYTHONHASHSEED."""
import json
import os
import subprocess
import sys
import time

import hmssim
from . import plan as P

PROPS_FOR_SELFTEST = ["GEN"]


def _digests(idxs, prop="GEN"):
    from . import build, sim, runner

    out = {}
    for i in idxs:
        seed = P.run_seed(777, "SELFTEST", i)
        if prop == "GEN":
            plan = P.gen_plan(seed, P.DEFAULT_PROFILE, "GEN")
            w = build.execute(plan, (), wall_s=60)
            td = sim.tree_digest(w.final_tree) if w.final_tree is not None else None
            out[str(i)] = [w.outcome, w.trace_digest(), td, w.n_requests]
            w.dispose()
        else:
            mod = runner.load_prop(prop)
            plan = mod.gen(seed, "quick")
            r = runner.run_plan(prop, plan)
            out[str(i)] = [r["outcome"], r["trace"], r.get("tree"), r["requests"], sorted(v["class_key"] for v in r["violations"])]
    return out


def _task(args):
    idxs, prop = args
    return _digests(idxs, prop)


def _pool(n, workers, prop):
    import concurrent.futures as cf
    import multiprocessing as mp
    from . import runner, build  # noqa: F401  (warm)

    chunks = [list(range(i, min(n, i + 8))) for i in range(0, n, 8)]
    out = {}
    with cf.ProcessPoolExecutor(max_workers=workers, mp_context=mp.get_context("fork"),
                                initializer=runner._worker_init) as ex:
        for d in ex.map(_task, [(c, prop) for c in chunks]):
            out.update(d)
    return out


def main(argv):
    if argv and argv[0] == "--child":
        n = int(argv[1])
        prop = argv[2] if len(argv) > 2 else "GEN"
        real = os.dup(1)
        os.dup2(os.open(os.devnull, os.O_WRONLY), 1)
        d = _pool(n, int(os.environ.get("VERIF_WORKERS", "4")), prop)
        os.write(real, (json.dumps(d, sort_keys=True) + "\n").encode())
        return 0
    n = int(argv[0]) if argv else 6
    props = argv[1:] or ["GEN"]
    t0 = time.time()
    bad = 0
    for prop in props:
        real = os.dup(1)
        sys.stdout.flush()
        os.dup2(os.open(os.devnull, os.O_WRONLY), 1)
        try:
            a = _digests(range(min(n, 40)), prop)  # in-process, sequential
            b = _pool(n, 16 if n > 16 else 2, prop)  # forked pool
        finally:
            sys.stdout.flush()
            os.dup2(real, 1)
        env = dict(os.environ)
        env["PYTHONHASHSEED"] = "4242"
        env["VERIF_WORKERS"] = "1" if n <= 16 else "5"
        cli = os.path.join(hmssim.VERIF_ROOT, "hmssim_cli.py")
        cp = subprocess.run([sys.executable, "-B", cli, "--selftest", "--child", str(n), prop], env=env,
                            capture_output=True, text=True, timeout=3600)
        if cp.returncode != 0:
            print("selftest child failed:\n" + cp.stderr[-2000:])
            return 2
        c = json.loads(cp.stdout.strip().splitlines()[-1])
        for k in b:
            if k in a and a[k] != b[k]:
                bad += 1
                print("NONDETERMINISM %s seed index %s: in-process %s vs pool %s" % (prop, k, a[k], b[k]))
            if c.get(k) != b[k]:
                bad += 1
                print("NONDETERMINISM %s seed index %s: pool %s vs fresh interpreter/hashseed %s" % (prop, k, b[k], c.get(k)))
        outcomes = {}
        for v in b.values():
            outcomes[v[0]] = outcomes.get(v[0], 0) + 1
        print("selftest %s: %d seeds x (in-process, forked pool, fresh interpreter PYTHONHASHSEED=4242): %s; outcomes %s"
              % (prop, n, "IDENTICAL" if not bad else "%d MISMATCHES" % bad, outcomes))
    print("selftest wall %.1fs" % (time.time() - t0))
    return 0 if not bad else 2
