"""Plan-level minimisation: greedy single-step reductions while the same violation class persists."""
import concurrent.futures as cf
import copy
import json
import multiprocessing as mp
import os

from . import runner


def _fix(plan):
    """Keep a reduced plan structurally valid."""
    if "levels" not in plan:
        return plan
    n = len(plan["levels"])
    plan["level_stack"] = plan["level_stack"][:n]
    used = sorted(set(plan["level_stack"]))
    remap = {s: i for i, s in enumerate(used)}
    plan["stacks"] = [plan["stacks"][s] for s in used]
    plan["level_stack"] = [remap[s] for s in plan["level_stack"]]
    g = plan["gsc"]
    if g["kind"] == "precision":
        ok = any(l["kind"] == "precision" for l in plan["stacks"][0]["layers"])
        if not ok:
            plan["gsc"] = {"kind": "metaepoch_limit", "limit": 5}
        else:
            g["stack"] = 0
    if g["kind"] == "fitness_eval_limit" and isinstance(g.get("weights"), list):
        g["weights"] = (g["weights"] + [1] * n)[:n]
    sp = plan["sprout"]
    if "generator" in sp:
        if sp["generator"]["kind"] == "nbc_local" and n < 3:
            sp["generator"]["kind"] = "nbc"
        if sp["generator"]["kind"] in ("best", "whole_population", "promising_first"):
            sp["deme_filters"] = [f for f in sp["deme_filters"] if f["kind"] != "nbc_far_enough"]
    lv = plan["levels"]
    if lv[0]["engine"] in ("cma", "local"):
        lv[0] = {"engine": "ea", "ea": "SEA", "pop_size": 6, "generations": 1, "mutation_std": 0.1, "p_mutation": 1.0,
                 "k_elites": 1, "sample_std_dev": 0.1, "lsc": lv[0]["lsc"]}
    for l in lv[:-1]:
        if l["lsc"]["kind"] == "all_children_stopped" and False:
            pass
    if lv[-1]["lsc"]["kind"] == "all_children_stopped":
        lv[-1]["lsc"] = {"kind": "dont_stop"}
    if plan.get("entry") == "hms" and any(l["engine"] == "custom" for l in lv):
        plan["entry"] = "tree"
    return plan


def _cut_dim(plan, d):
    plan["dim"] = d
    plan["box"] = plan["box"][:d]
    o = plan["objective"]
    for k in ("center", "weights"):
        if k in o:
            o[k] = o[k][:d]
    if "centers" in o:
        o["centers"] = [c[:d] for c in o["centers"]]
    return plan


def candidates(plan):
    """Yield (label, reduced plan) in a fixed order."""
    out = []

    def add(label, fn):
        p = copy.deepcopy(plan)
        try:
            q = fn(p)
            q = _fix(q if q is not None else p)
        except Exception:
            return
        if json.dumps(q, sort_keys=True, default=str) != json.dumps(plan, sort_keys=True, default=str):
            out.append((label, q))

    f = plan.get("faults", {})
    for k in list(f.keys()):
        if k in ("lsc_inject", "crash_at_consult", "snapshot_at_boundary", "dump_fail") and isinstance(f[k], list) and len(f[k]) > 1:
            for i in range(len(f[k])):
                add("fault-%s-%d" % (k, i), lambda p, k=k, i=i: p["faults"][k].pop(i) and None)
        else:
            add("fault-" + k, lambda p, k=k: p["faults"].pop(k) and None)
    if plan.get("probes"):
        for i in range(len(plan["probes"])):
            add("probe-%d" % i, lambda p, i=i: p["probes"].pop(i) and None)
    if plan.get("clock", {}).get("jumps"):
        add("clock-jumps", lambda p: p["clock"].pop("jumps") and None)
    if plan.get("prior_junk"):
        add("junk", lambda p: p.__setitem__("prior_junk", 0))
    if plan.get("objective_form") != "closure":
        add("objform", lambda p: p.__setitem__("objective_form", "closure"))
    if plan.get("entry") == "hms":
        add("entry", lambda p: p.__setitem__("entry", "tree"))
    if "levels" in plan:
        n = len(plan["levels"])
        if n > 1:
            add("drop-level", lambda p: p["levels"].pop() and None)
        if plan["dim"] > 2:
            add("dim", lambda p: _cut_dim(p, p["dim"] - 1))
        g = plan["gsc"]
        if g["kind"] != "metaepoch_limit":
            for lim in (2, 4, 8):
                add("gsc-me-%d" % lim, lambda p, lim=lim: p.__setitem__("gsc", {"kind": "metaepoch_limit", "limit": lim}))
        else:
            if g["limit"] > 1:
                add("gsc-half", lambda p: p["gsc"].__setitem__("limit", max(1, p["gsc"]["limit"] // 2)))
                add("gsc-dec", lambda p: p["gsc"].__setitem__("limit", p["gsc"]["limit"] - 1))
        if g.get("limit") and g["kind"] != "metaepoch_limit" and g["limit"] > 8:
            add("gsc-limit-half", lambda p: p["gsc"].__setitem__("limit", p["gsc"]["limit"] // 2))
        for li, l in enumerate(plan["levels"]):
            if l.get("pop_size", 0) > 4:
                add("pop-%d" % li, lambda p, li=li: p["levels"][li].__setitem__("pop_size", max(4 if p["levels"][li].get("ea") != "MWEA" else 6, p["levels"][li]["pop_size"] // 2)))
            if l.get("generations", 1) > 1:
                add("gens-%d" % li, lambda p, li=li: p["levels"][li].__setitem__("generations", p["levels"][li]["generations"] - 1))
            if l["lsc"]["kind"] != "dont_stop":
                add("lsc-%d" % li, lambda p, li=li: p["levels"][li].__setitem__("lsc", {"kind": "dont_stop"}))
            if not (l["engine"] == "ea" and l.get("ea") == "SEA"):
                def to_sea(p, li=li):
                    old = p["levels"][li]
                    p["levels"][li] = {"engine": "ea", "ea": "SEA", "pop_size": old.get("pop_size", 6),
                                       "generations": min(2, old.get("generations", 1)),
                                       "mutation_std": old.get("mutation_std", 0.1 * min(h - l_ for l_, h in p["box"])),
                                       "p_mutation": 1.0, "k_elites": 1,
                                       "sample_std_dev": old.get("sample_std_dev", 0.1 * min(h - l_ for l_, h in p["box"])),
                                       "lsc": old["lsc"]}
                add("sea-%d" % li, to_sea)
            if l.get("k_elites", 1) != 1 and l.get("ea") != "MWEA":
                add("elite-%d" % li, lambda p, li=li: p["levels"][li].__setitem__("k_elites", 1))
            if l.get("p_mutation", 1.0) != 1.0:
                add("pmut-%d" % li, lambda p, li=li: p["levels"][li].__setitem__("p_mutation", 1.0))
        for si, s in enumerate(plan["stacks"]):
            for i in range(len(s["layers"])):
                add("layer-%d-%d" % (si, i), lambda p, si=si, i=i: p["stacks"][si]["layers"].pop(i) and None)
        if len(set(plan["level_stack"])) > 1:
            add("share-stack", lambda p: p.__setitem__("level_stack", [0] * len(p["levels"])))
        sp = plan["sprout"]
        if "generator" in sp:
            for i in range(len(sp["deme_filters"])):
                add("dfilter-%d" % i, lambda p, i=i: p["sprout"]["deme_filters"].pop(i) and None)
            for i in range(len(sp["tree_filters"])):
                if sp["tree_filters"][i]["kind"] != "level_limit":
                    add("tfilter-%d" % i, lambda p, i=i: p["sprout"]["tree_filters"].pop(i) and None)
            if sp["generator"]["kind"] != "best":
                def to_best(p):
                    p["sprout"]["generator"] = {"kind": "best"}
                add("gen-best", to_best)
        else:
            minr = min(h - l_ for l_, h in plan["box"])
            add("sprout-simple", lambda p: p.__setitem__("sprout", {"factory": "simple", "far_enough": 0.05 * minr,
                                                                    "level_limit": p["sprout"].get("level_limit", 2)}))
        for k in list(plan.get("options", {}).keys()):
            if k != "random_seed":
                add("opt-" + k, lambda p, k=k: p["options"].pop(k) and None)
        if plan["objective"]["kind"] != "sphere":
            def to_sphere(p):
                o = p["objective"]
                p["objective"] = {"kind": "sphere", "center": o.get("center") or [(l_ + h) / 2 for l_, h in p["box"]],
                                  "scale": 1.0, "offset": 0.0, "sign": o.get("sign", 1.0)}
            add("sphere", to_sphere)
        if plan["caps"].get("metaepochs", 40) > 6:
            add("cap", lambda p: p["caps"].__setitem__("metaepochs", max(6, p["caps"]["metaepochs"] // 2)))
    if "minimize" in plan:
        m = plan["minimize"]
        if m.get("maxfun") and m["maxfun"] > 10:
            add("maxfun", lambda p: p["minimize"].__setitem__("maxfun", p["minimize"]["maxfun"] // 2))
        if m.get("maxiter") and m["maxiter"] > 1:
            add("maxiter", lambda p: p["minimize"].__setitem__("maxiter", p["minimize"]["maxiter"] - 1))
        if plan["dim"] > 2:
            add("dim", lambda p: _cut_dim(p, p["dim"] - 1))
    return out


def _eval(args):
    prop, plan, class_key = args
    try:
        r = runner.run_plan(prop, plan)
    except BaseException:
        return None
    for v in r["violations"]:
        if v["property"] == prop and v["class_key"] == class_key:
            return (v, r.get("trace", ""))
    return None


def shrink(prop, plan, class_key, budget=120, workers=None):
    workers = workers or int(os.environ.get("VERIF_WORKERS", str(os.cpu_count() or 4)))
    ctx = mp.get_context("fork")
    used = 0
    with cf.ProcessPoolExecutor(max_workers=workers, mp_context=ctx, initializer=runner._worker_init) as ex:
        base = ex.submit(_eval, (prop, plan, class_key)).result(timeout=600)
        if base is None:
            raise RuntimeError("violation does not reproduce for seed %s" % plan.get("seed"))
        best_v, best_t = base
        cur = plan
        while used < budget:
            cands = candidates(cur)
            if not cands:
                break
            cands = cands[: max(1, budget - used)]
            futs = [ex.submit(_eval, (prop, c, class_key)) for _, c in cands]
            used += len(futs)
            chosen = None
            for (label, c), fut in zip(cands, futs):
                try:
                    res = fut.result(timeout=600)
                except Exception:
                    res = None
                if res is not None and chosen is None:
                    chosen = (label, c, res)
            if chosen is None:
                break
            cur = chosen[1]
            best_v, best_t = chosen[2]
    cur = copy.deepcopy(cur)
    cur["shrunk_from_seed"] = plan.get("seed")
    return cur, best_v, best_t
