"""plan (JSON) -> pyhms objects, and execution of one plan inside a World."""
import random
import signal
import traceback
import warnings

import hmssim  # noqa: F401
import numpy as np

import pyhms
import pyhms.demes.ea_deme
import pyhms.core.problem
import pyhms.sprout.sprout_filters
import pyhms.sprout.sprout_generators
from pyhms.config import (
    BaseLevelConfig,
    CMALevelConfig,
    DELevelConfig,
    EALevelConfig,
    LHSLevelConfig,
    LocalOptimizationConfig,
    SHADELevelConfig,
    SobolLevelConfig,
    TreeConfig,
)
from pyhms.core.individual import Individual
from pyhms.core.problem import (
    EvalCountingProblem,
    EvalCutoffProblem,
    FunctionProblem,
    PrecisionCutoffProblem,
    StatsGatheringProblem,
)
from pyhms.demes.abstract_deme import AbstractDeme, DemeInitArgs
from pyhms.demes.single_pop_eas import sea as _sea
from pyhms.sprout import get_NBC_sprout, get_simple_sprout
from pyhms.sprout.sprout_filters import DemeLimit, FarEnough, LevelLimit, NBC_FarEnough, SkipSameSprout
from pyhms.sprout.sprout_generators import BestPerDeme, NBC_Generator, NBCGeneratorWithLocalMethod
from pyhms.sprout.sprout_mechanisms import SproutMechanism
from pyhms.stop_conditions import (
    AllChildrenStopped,
    AllStopped,
    DontRun,
    DontStop,
    FitnessEvalLimitReached,
    FitnessSteadiness,
    LocalStopCondition,
    MetaepochLimit,
    NoActiveNonrootDemes,
    RootStopped,
    SingularProblemEvalLimitReached,
    SingularProblemPrecisionReached,
    WeightingStrategy,
)

from . import objectives
from .sim import HarnessError, SimCap, SimCrash, SimDemeTree, SimTimeout, World, tree_digest

GLOBAL_CALLS = []  # module-level state touched by the "global_counter" objective form

EA_CLASSES = {
    "SEA": _sea.SEA,
    "SEAWithCrossover": _sea.SEAWithCrossover,
    "GAStyleSEA": _sea.GAStyleSEA,
    "SEAWithAdaptiveMutation": _sea.SEAWithAdaptiveMutation,
    "MWEA": _sea.MWEA,
}


# ---------------------------------------------------------------------------------------
# user-defined plug-ins (legal uses of the public extension points)
# ---------------------------------------------------------------------------------------
class EvalBudgetLSC(LocalStopCondition):
    """User-defined LSC: the deme stops once it has used n evaluations."""

    def __init__(self, n):
        self.n = n

    def __call__(self, deme):
        return deme.n_evaluations >= self.n


class CustomLevelConfig(BaseLevelConfig):
    def __init__(self, problem, lsc, pop_size):
        super().__init__(problem, lsc)
        self.pop_size = pop_size


class CustomDeme(AbstractDeme):
    """Random-search deme written after docs/custom_demes.rst."""

    def __init__(self, deme_init_args: DemeInitArgs) -> None:
        super().__init__(deme_init_args)
        config = deme_init_args.config
        self._pop_size = config.pop_size
        self.lower_bounds = config.bounds[:, 0]
        self.upper_bounds = config.bounds[:, 1]
        self._history.append([self._run_step()])

    def run_metaepoch(self, tree) -> None:
        self._history.append([self._run_step()])
        if tree._gsc(tree) or self._lsc(self):
            self._active = False

    def _run_step(self):
        genomes = np.random.uniform(self.lower_bounds, self.upper_bounds, size=(self._pop_size, len(self.lower_bounds)))
        population = [Individual(genome, problem=self._problem) for genome in genomes]
        Individual.evaluate_population(population)
        return population


class CustomDemeB(CustomDeme):
    """A second deme class for the same custom config class (used by another tree of the same process)."""


class CustomFineConfig(CustomLevelConfig):
    """A second user config class, derived from the first one and registered (after it) with its own deme class."""


class CustomFineDeme(CustomDeme):
    """(mu + lambda) evolution strategy written with the public Individual.clone(): a generation holds parents next
    to their clones."""

    def _run_step(self):
        if not self._history:
            return super()._run_step()
        parents = self._history[-1][-1]
        sigma = 0.1 * (self.upper_bounds - self.lower_bounds)
        children = []
        for p in parents:
            c = p.clone()
            c.genome = np.clip(p.genome + np.random.normal(0.0, sigma), self.lower_bounds, self.upper_bounds)
            children.append(c)
        Individual.evaluate_population(children)
        pool = list(parents) + children
        pool.sort(key=lambda i: i.fitness, reverse=bool(self._problem.maximize))
        return pool[: self._pop_size]


class CustomEAConfig(EALevelConfig):
    """A user's config class derived from a built-in one, registered with its own deme class."""


class CustomEADeme(pyhms.demes.ea_deme.EADeme):
    pass


# a user's config class that carries the NAME of the built-in class it extends (`class EALevelConfig(pyhms.EALevelConfig)`
# in the user's own module)
SameNameEAConfig = type("EALevelConfig", (EALevelConfig,), {"__module__": __name__ + ".user"})


class WholePopulationGenerator(pyhms.sprout.sprout_generators.SproutCandidatesGenerator):
    """User-defined generator: every individual of an active non-leaf deme is a candidate; it hands over the
    deme's current population list as it is."""

    def __call__(self, tree):
        from pyhms.sprout.sprout_candidates import DemeCandidates, DemeFeatures

        return {deme: DemeCandidates(individuals=deme.current_population, features=DemeFeatures())
                for level in tree.levels[:-1] for deme in level if deme.is_active}


class PromisingFirstGenerator(pyhms.sprout.sprout_generators.SproutCandidatesGenerator):
    """User-defined generator: the best individual of every active non-leaf deme, the parents listed most promising
    first (so the keys of the returned dict are not grouped by level)."""

    def __call__(self, tree):
        from pyhms.sprout.sprout_candidates import DemeCandidates, DemeFeatures

        import random as _r

        demes = [deme for level in tree.levels[:-1] for deme in level if deme.is_active]
        demes.sort(key=lambda d: d.best_current_individual, reverse=True)
        if tree.metaepoch_count % 2:
            # every other round: a fair (shuffled) order, from a private generator
            _r.Random(7919 * len(demes) + tree.metaepoch_count).shuffle(demes)
        return {deme: DemeCandidates(individuals=[deme.best_current_individual], features=DemeFeatures())
                for deme in demes}


class FunctionalFilter(pyhms.sprout.sprout_filters.DemeLevelCandidatesFilter):
    """User-defined filter written in functional style: returns a NEW dict with NEW DemeCandidates objects
    (keeping every candidate whose first coordinate is inside the box - i.e. all of them)."""

    def __call__(self, candidates, tree):
        from pyhms.sprout.sprout_candidates import DemeCandidates, DemeFeatures

        out = {}
        for deme, c in candidates.items():
            lo, hi = deme._bounds[0][0], deme._bounds[0][1]
            out[deme] = DemeCandidates(individuals=[i for i in c.individuals if lo <= i.genome[0] <= hi],
                                       features=DemeFeatures(nbc_mean_distance=c.features.nbc_mean_distance))
        return out


class Mirrored(pyhms.core.problem.ProblemWrapper):
    """User-defined wrapper that turns a problem round: minimising Mirrored(p) is maximising p (and vice versa)."""

    def evaluate(self, phenome, *a, **k):
        return -self._inner.evaluate(phenome, *a, **k)

    @property
    def maximize(self):
        return not self._inner.maximize

    def worse_than(self, first_fitness, second_fitness):
        return self._inner.worse_than(-first_fitness, -second_fitness)


class CallableObjective:
    """Objective given as a callable object (C19: pickled by value through its state)."""

    def __init__(self, spec):
        self.spec = spec
        self._f = None

    def __call__(self, x):
        if self._f is None:
            self._f = objectives.make_pure(self.spec)
        return self._f(x)

    def __getstate__(self):
        return {"spec": self.spec, "_f": None}


# ---------------------------------------------------------------------------------------
def _norm(v):
    if v == "inf":
        return np.inf
    return v


def objective_spec(plan, stack_index=0):
    so = plan.get("stack_objectives")
    if so and stack_index < len(so) and so[stack_index]:
        return so[stack_index]
    return plan["objective"]


def build_user_objective(plan, stack_index=0):
    spec = objective_spec(plan, stack_index)
    form = plan.get("objective_form", "closure")
    pure = objectives.make_pure(spec)
    rt = plan.get("return_type")
    if rt == "np.float64":  # what `np.sum(x ** 2)` gives
        pure0 = pure
        pure = lambda x: np.float64(pure0(x))  # noqa: E731
    elif rt == "np0d":  # a 0-d array, e.g. `np.asarray(model(x)).squeeze()`
        pure1 = pure
        pure = lambda x: np.array(pure1(x))  # noqa: E731
    if form == "closure":
        return pure
    if form == "lambda":
        return lambda x: pure(x)  # noqa: E731
    if form == "callable":
        return CallableObjective(spec)
    if form == "main_def":
        # the objective is a plain `def` of the running script (module __main__), as in every example script
        import __main__

        ns = __main__.__dict__
        k = len([n for n in ns if n.startswith("_hmssim_pure_")])
        ns["_hmssim_pure_%d" % k] = pure
        exec("def user_objective(x):\n    return _hmssim_pure_%d(x)\n" % k, ns)
        return ns.pop("user_objective")
    if form == "global_counter":
        # a by-value function (dill pickles nested functions by value) with a side effect on module-level state
        def counting(x):
            GLOBAL_CALLS.append(1)
            return pure(x)

        return counting
    raise ValueError(form)


_NP_INTS = [False]


def I(x):  # noqa: E743
    """Integer parameters as the user wrote them: Python ints, or numpy integers (`np.arange`, `rng.integers`)."""
    return np.int64(int(x)) if _NP_INTS[0] else int(x)


def build_bounds(plan):
    if plan.get("bounds_int"):
        return np.array([(int(lo), int(hi)) for lo, hi in plan["box"]])
    form = plan.get("bounds_form")
    if form == "readonly_view":
        # a read-only, non-contiguous view of a larger table (columns 0 and 2 of a (d, 4) array)
        full = np.array([[float(lo), -1.0, float(hi), -2.0] for lo, hi in plan["box"]], dtype=float)
        b = full[:, ::2]
        b.setflags(write=False)
        return b
    if form == "fortran":
        return np.asfortranarray(np.array([[float(lo), float(hi)] for lo, hi in plan["box"]], dtype=float))
    return np.array([[float(lo), float(hi)] for lo, hi in plan["box"]], dtype=float)


class SubBox(pyhms.core.problem.ProblemWrapper):
    """User-defined wrapper that restricts the search to a region of interest inside the wrapped problem's box."""

    def __init__(self, decorated_problem, bounds):
        super().__init__(decorated_problem)
        self._sub = np.array(bounds, dtype=float)

    @property
    def bounds(self):
        return self._sub


class TargetValueProblem(FunctionProblem):
    """User-defined problem with its own order: a fitness closer to a target value is better (calibration / inverse
    problems). The library's wrappers must keep comparing the way the innermost problem does."""

    def __init__(self, fun, bounds, maximize, target):
        super().__init__(fun, bounds=bounds, maximize=maximize)
        self.target = float(target)

    def worse_than(self, first_fitness, second_fitness):
        return abs(first_fitness - self.target) > abs(second_fitness - self.target)


def build_stack(plan, stack_spec, fun, bounds):
    mx = stack_spec.get("maximize", plan["maximize"])
    declared = bounds
    if any(ls["kind"] == "subbox" for ls in stack_spec["layers"]):
        # the innermost problem is defined on a larger box; the SubBox layer declares the plan's box
        b = np.array(bounds, dtype=float)
        half = 0.5 * (b[:, 1] - b[:, 0])
        bounds = np.column_stack([b[:, 0] - half, b[:, 1] + half])
    if stack_spec.get("innermost_target") is not None:
        p = TargetValueProblem(fun, bounds, bool(mx), stack_spec["innermost_target"])
    elif stack_spec.get("use_cache"):
        p = FunctionProblem(fun, bounds=bounds, maximize=bool(mx), use_cache=True)
    else:
        p = FunctionProblem(fun, bounds=bounds, maximize=bool(mx))
    layers = []
    for ls in stack_spec["layers"]:
        k = ls["kind"]
        if k == "count":
            p = EvalCountingProblem(p)
        elif k == "cutoff":
            for _ in range(int(ls.get("pre_evals", 0))):
                # the user evaluated the stack built so far a few times before putting a budget around it
                p.evaluate(np.array([(lo + hi) / 2.0 for lo, hi in bounds], dtype=float))
            p = EvalCutoffProblem(p, int(ls["n"]))
        elif k == "precision":
            p = PrecisionCutoffProblem(p, float(ls["opt"]), float(ls["eps"]))
        elif k == "stats":
            p = StatsGatheringProblem(p)
        elif k == "mirror":
            p = Mirrored(p)
        elif k == "subbox":
            p = SubBox(p, declared)
        else:
            raise ValueError(k)
        layers.append(p)
    for _ in range(int(stack_spec.get("pre_evals_top", 0))):
        # a long-lived stack: the whole of it was used (a lot) before this tree was built around it
        p.evaluate(np.array([(lo + hi) / 2.0 for lo, hi in bounds], dtype=float))
    return p, layers


SHARED_LSCS = {}


def build_lsc(spec, share_key=None):
    """``share_key``: the LSC *object* is shared by several trees ("build the level configs once, loop over seeds")."""
    if share_key is not None:
        if share_key not in SHARED_LSCS:
            SHARED_LSCS[share_key] = _build_lsc(spec)
        return SHARED_LSCS[share_key]
    return _build_lsc(spec)


def _build_lsc(spec):
    k = spec["kind"]
    if k == "metaepoch_limit":
        return MetaepochLimit(I(spec["limit"]))
    if k == "fitness_steadiness":
        return FitnessSteadiness(float(spec["max_deviation"]), I(spec["n_metaepochs"]))
    if k == "all_children_stopped":
        return AllChildrenStopped()
    if k == "dont_stop":
        return DontStop()
    if k == "dont_run":
        return DontRun()
    if k == "eval_budget":
        return EvalBudgetLSC(I(spec["n"]))
    raise ValueError(k)


def build_level(spec, problem, share_key=None):
    lsc = build_lsc(spec["lsc"], share_key)
    e = spec["engine"]
    if e == "ea":
        kw = {}
        for name in ("mutation_std", "p_mutation", "p_crossover", "k_elites", "mutation_std_step",
                     "election_group_size"):
            if spec.get(name) is not None:
                kw[name] = spec[name]
        cfg_cls = CustomEAConfig if spec.get("custom_derived") else EALevelConfig
        if spec.get("custom_derived") == "same_name":
            cfg_cls = SameNameEAConfig
        return cfg_cls(
            pop_size=I(spec["pop_size"]),
            problem=problem,
            lsc=lsc,
            generations=I(spec["generations"]),
            ea_class=EA_CLASSES[spec["ea"]],
            sample_std_dev=float(spec.get("sample_std_dev", 1.0)),
            **kw,
        )
    if e == "de":
        return DELevelConfig(
            pop_size=I(spec["pop_size"]),
            problem=problem,
            lsc=lsc,
            generations=I(spec["generations"]),
            sample_std_dev=float(spec.get("sample_std_dev", 1.0)),
            dither=bool(spec.get("dither", False)),
            scaling=float(spec.get("scaling", 0.8)),
            crossover=float(spec.get("crossover", 0.9)),
        )
    if e == "shade":
        return SHADELevelConfig(
            pop_size=I(spec["pop_size"]),
            problem=problem,
            lsc=lsc,
            generations=I(spec["generations"]),
            memory_size=int(spec.get("memory_size", 5)),
            sample_std_dev=float(spec.get("sample_std_dev", 1.0)),
        )
    if e == "cma":
        kw = {}
        if spec.get("set_stds"):
            kw["set_stds"] = True
        if spec.get("sigma0") is None and spec.get("sigma0_omitted"):
            return CMALevelConfig(problem=problem, lsc=lsc, generations=I(spec["generations"]), **kw)
        return CMALevelConfig(problem=problem, lsc=lsc, generations=I(spec["generations"]),
                              sigma0=spec.get("sigma0"), **kw)
    if e == "local":
        kw = {}
        if spec.get("maxiter") is not None:
            kw["maxiter"] = I(spec["maxiter"])
        if spec.get("method"):
            kw["method"] = str(spec["method"])  # other spellings of L-BFGS-B, other bound-aware scipy methods
        return LocalOptimizationConfig(problem=problem, lsc=lsc, **kw)
    if e == "lhs":
        return LHSLevelConfig(problem=problem, lsc=lsc, pop_size=I(spec["pop_size"]))
    if e == "sobol":
        return SobolLevelConfig(problem=problem, lsc=lsc, pop_size=I(spec["pop_size"]))
    if e == "custom" and spec.get("custom_fine"):
        return CustomFineConfig(problem=problem, lsc=lsc, pop_size=I(spec["pop_size"]))
    if e == "custom":
        return CustomLevelConfig(problem=problem, lsc=lsc, pop_size=I(spec["pop_size"]))
    raise ValueError(e)


def build_gsc(spec, stack_layers):
    k = spec["kind"]
    if k == "metaepoch_limit":
        return MetaepochLimit(I(spec["limit"]))
    if k == "fitness_eval_limit":
        w = spec.get("weights", "equal")
        if spec.get("weights_as_str") and w in ("equal", "root"):
            return FitnessEvalLimitReached(I(spec["limit"]), str(w))  # the documented plain-string form
        if w == "equal":
            w = WeightingStrategy.EQUAL
        elif w == "root":
            w = WeightingStrategy.ROOT
        elif w == "default":
            return FitnessEvalLimitReached(I(spec["limit"]))
        return FitnessEvalLimitReached(I(spec["limit"]), w)
    if k == "singular_eval_limit":
        return SingularProblemEvalLimitReached(I(spec["limit"]))
    if k == "precision":
        layers = stack_layers[I(spec["stack"])]
        for p in layers:
            if isinstance(p, PrecisionCutoffProblem):
                return SingularProblemPrecisionReached(p)
        raise ValueError("no precision layer in stack")
    if k == "root_stopped":
        return RootStopped()
    if k == "all_stopped":
        return AllStopped()
    if k == "no_active_nonroot":
        return NoActiveNonrootDemes(I(spec["n"]))
    if k == "dont_run":
        return DontRun()
    raise ValueError(k)


SHARED_MECHANISMS = {}


def build_sprout(spec, share_key=None):
    """``share_key``: one mechanism object shared by several trees (as test/config.py does with its module-level
    mechanisms); the caller clears SHARED_MECHANISMS when the group of runs is over."""
    if share_key is not None:
        if share_key not in SHARED_MECHANISMS:
            SHARED_MECHANISMS[share_key] = _build_sprout(spec)
        return SHARED_MECHANISMS[share_key]
    return _build_sprout(spec)


def _build_sprout(spec):
    if spec.get("factory") == "nbc" and spec.get("positional"):
        # the documented signature allows the four arguments to be given positionally
        return get_NBC_sprout(float(spec["gen_dist_factor"]), float(spec["trunc_factor"]),
                              float(spec["fil_dist_factor"]), I(spec["level_limit"]))
    if spec.get("factory") == "nbc":
        return get_NBC_sprout(
            gen_dist_factor=float(spec["gen_dist_factor"]),
            trunc_factor=float(spec["trunc_factor"]),
            fil_dist_factor=float(spec["fil_dist_factor"]),
            level_limit=I(spec["level_limit"]),
        )
    if spec.get("factory") == "simple":
        return get_simple_sprout(float(spec["far_enough"]), level_limit=I(spec["level_limit"]))
    g = spec["generator"]
    if g["kind"] == "best":
        gen = BestPerDeme()
    elif g["kind"] == "nbc":
        gen = NBC_Generator(float(g["distance_factor"]), float(g["truncation_factor"]))
    elif g["kind"] == "nbc_local":
        gen = NBCGeneratorWithLocalMethod(float(g["distance_factor"]), float(g["truncation_factor"]))
    elif g["kind"] == "whole_population":
        gen = WholePopulationGenerator()
    elif g["kind"] == "promising_first":
        gen = PromisingFirstGenerator()
    else:
        raise ValueError(g["kind"])
    dfs = []
    for f in spec.get("deme_filters", []):
        if f["kind"] == "far_enough":
            dfs.append(FarEnough(float(f["min_distance"]), _norm(f.get("norm_ord", 2))))
        elif f["kind"] == "nbc_far_enough":
            dfs.append(NBC_FarEnough(float(f["factor"]), _norm(f.get("norm_ord", 2)),
                                     bool(f.get("check_only_active", False))))
        elif f["kind"] == "deme_limit":
            dfs.append(DemeLimit(int(f["limit"])))
        elif f["kind"] == "functional":
            dfs.append(FunctionalFilter())
        else:
            raise ValueError(f["kind"])
    tfs = []
    for f in spec.get("tree_filters", []):
        if f["kind"] == "level_limit":
            tfs.append(LevelLimit(int(f["limit"])))
        elif f["kind"] == "skip_same":
            tfs.append(SkipSameSprout())
        else:
            raise ValueError(f["kind"])
    return SproutMechanism(gen, dfs, tfs)


def build_config(plan):
    _NP_INTS[0] = bool(plan.get("np_ints"))
    bounds = build_bounds(plan)
    tops = []
    stack_layers = []
    for si, ss in enumerate(plan["stacks"]):
        fun = build_user_objective(plan, si)
        top, layers = build_stack(plan, ss, fun, bounds)
        tops.append(top)
        stack_layers.append(layers)
    levels = []
    for li, ls in enumerate(plan["levels"]):
        levels.append(build_level(ls, tops[plan["level_stack"][li]],
                                  (plan["share_key"], li) if plan.get("share_key") and plan.get("share_lscs") else None))
    gsc = build_gsc(plan["gsc"], stack_layers)
    sprout = build_sprout(plan["sprout"], plan.get("share_key"))
    options = {}
    for k, v in plan.get("options", {}).items():
        options[k] = v
    kw = {}
    reg = {}
    if any(ls["engine"] == "custom" for ls in plan["levels"]):
        reg[CustomLevelConfig] = CustomDemeB if plan.get("custom_variant") == "B" else CustomDeme
    if any(ls.get("custom_fine") for ls in plan["levels"]):
        reg.setdefault(CustomLevelConfig, CustomDeme)  # the base class is registered first, the derived one after it
        reg[CustomFineConfig] = CustomFineDeme
    if any(ls.get("custom_derived") for ls in plan["levels"]):
        reg[CustomEAConfig] = CustomEADeme
    if any(ls.get("custom_derived") == "same_name" for ls in plan["levels"]):
        reg[SameNameEAConfig] = CustomEADeme
    if reg:
        kw["config_class_to_deme_class"] = reg
    if not options and plan.get("omit_options"):
        cfg = TreeConfig(levels, gsc, sprout, **kw)  # the library's default options object
    else:
        cfg = TreeConfig(levels, gsc, sprout, options=options, **kw)
    return cfg


# ---------------------------------------------------------------------------------------
def _alarm(signum, frame):
    raise SimTimeout()


def seed_globals(plan, salt=0):
    ps = int(plan.get("prior_seed", 0)) + salt
    random.seed(ps)
    np.random.seed(ps % (2**32))
    for _ in range(int(plan.get("prior_junk", 0))):
        np.random.rand()
        random.random()
    # numpy's print options are process-global state a user script may have changed; every run starts from a stated one
    po = {"precision": 8, "suppress": False, "threshold": 1000, "linewidth": 75, "floatmode": "maxprec"}
    po.update(plan.get("np_printoptions") or {})
    np.set_printoptions(**po)


def _merged(plan, over):
    import copy

    q = copy.deepcopy({k: v for k, v in plan.items() if k != "preceded_by"})
    for k, v in over.items():
        q[k] = copy.deepcopy(v)
    return q


def execute(plan, monitor_classes=(), wall_s=60.0, keep_log=True, pre_hook=None):
    """Run one plan to completion inside a fresh World.  Returns the World (already
    uninstalled; ``w.dispose()`` is the caller's job once it has read the results).

    ``plan["preceded_by"]``: list of top-level overrides; for each, the plan with these overrides is executed first
    in the same process (unmonitored) - "another tree ran earlier in this interpreter" is part of the replay file."""
    for over in plan.get("preceded_by", []) or []:
        w0 = execute(_merged(plan, over), (), wall_s=wall_s, keep_log=False)
        w0.dispose()
    w = World(plan, monitor_classes, keep_log=keep_log)
    warnings.simplefilter("ignore")
    np.seterr(all="ignore")
    old_handler = signal.signal(signal.SIGALRM, _alarm)
    signal.setitimer(signal.ITIMER_REAL, wall_s)
    w.install()
    tree = None
    try:
        try:
            seed_globals(plan)
            if pre_hook is not None:
                pre_hook(w)
            entry = plan.get("entry", "tree")
            if entry == "tree" and plan.get("redirect_stdout"):
                # environment variation: the tree is built and run while sys.stdout is replaced (as under
                # contextlib.redirect_stdout or a test runner's capture fixture)
                import contextlib
                import io as _io

                with contextlib.redirect_stdout(_io.StringIO()):
                    cfg = build_config(plan)
                    tree = SimDemeTree(cfg)
                    tree.run()
                w.result = tree
            elif entry == "tree":
                cfg = build_config(plan)
                tree = SimDemeTree(cfg)
                tree.run()
                if plan.get("rerun_after_return"):
                    tree.run()  # calling run() on a finished tree: the condition holds, nothing may happen
                    w.fire("run-called-again")
                w.result = tree
            elif entry == "phases":
                # the user calls the two phases of a metaepoch himself (as test/test_gsc.py does); the tree's
                # metaepoch counter is NOT advanced in this driving mode
                cfg = build_config(plan)
                tree = SimDemeTree(cfg)
                n_rounds = int(plan.get("phase_rounds", 6))
                for _ in range(n_rounds):
                    w.manual_boundary = True
                    try:
                        stop = tree._gsc(tree)
                    finally:
                        w.manual_boundary = False
                    if stop:
                        break
                    w.on_step_begin(tree)
                    tree.run_metaepoch()
                    tree.run_sprout()
                    w.on_step_end(tree)
                w.result = tree
            elif entry == "steps":
                # the user drives the tree himself, one metaepoch at a time
                cfg = build_config(plan)
                tree = SimDemeTree(cfg)

                def _stop():
                    w.manual_boundary = True
                    try:
                        return tree._gsc(tree)
                    finally:
                        w.manual_boundary = False

                while not _stop():
                    tree.run_step()
                w.result = tree
            elif entry == "hms":
                cfg = build_config(plan)
                tree = pyhms.hms(cfg.levels, cfg.gsc, cfg.sprout_mechanism, cfg.options)
                w.result = tree
            elif entry == "minimize":
                m = plan["minimize"]
                from .sim import ObjectiveTap

                # tapped from the very first call: minimize() may call fun before it builds the tree
                fun = ObjectiveTap(w.key, 0, build_user_objective(plan))
                bounds = build_bounds(plan)
                if m.get("bounds_as_list"):
                    bounds = [tuple(b) for b in bounds.tolist()]
                mf = m.get("maxfun")
                if mf is not None and m.get("maxfun_type") == "np.int64":
                    mf = np.int64(mf)
                elif mf is not None and m.get("maxfun_type") == "float":
                    mf = float(mf)
                res = pyhms.minimize(fun, bounds, maxfun=mf, maxiter=m.get("maxiter"), seed=m.get("seed"))
                w.result = res
                tree = w.tree
            else:
                raise ValueError(entry)
            w.outcome = "returned"
        except SimCrash:
            # crash-restart loop: only durable state (the fake file system) survives
            while True:
                w.restarts += 1
                path = w.faults.get("snapshot_path", "snap.pkl")
                if path not in w.fs.files:
                    w.outcome = "crashed-no-snapshot"
                    break
                try:
                    seed_globals(plan, salt=w.restarts)
                    tree = SimDemeTree.pickle_load(path)
                    w.tree = tree
                    w.demes = {}
                    for lv in tree.levels:
                        for d in lv:
                            w.deme_rec(d).restored = True
                    w.fire("restart")
                    w._ev("X", w.restarts)
                    w._dispatch("on_restart", tree)
                    tree.run()
                    w.result = tree
                    w.outcome = "returned"
                    break
                except SimCrash:
                    continue
    except SimCap as e:
        w.outcome = "capped:" + str(e)
    except SimTimeout:
        w.outcome = "timeout"
    except HarnessError as e:
        w.outcome = "harness-error"
        w.sut_exception = str(e)
    except Exception as e:  # exception escaping the system under test (or the harness)
        w.outcome = "exception"
        w.sut_exception = "".join(traceback.format_exception(type(e), e, e.__traceback__))[-3000:]
    finally:
        signal.setitimer(signal.ITIMER_REAL, 0)
        signal.signal(signal.SIGALRM, old_handler)
        w.uninstall()
    w.final_tree = w.tree if w.tree_ready else None
    signal.signal(signal.SIGALRM, _alarm)
    signal.setitimer(signal.ITIMER_REAL, max(10.0, wall_s))
    try:
        if w.outcome != "harness-error":
            w._dispatch("on_end", w.final_tree, w.outcome)
    except SimTimeout:
        w.outcome = "timeout"
    except HarnessError as e:
        w.outcome = "harness-error"
        w.sut_exception = str(e)
    finally:
        signal.setitimer(signal.ITIMER_REAL, 0)
        signal.signal(signal.SIGALRM, old_handler)
    return w
