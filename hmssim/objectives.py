"""Catalogue of deterministic synthetic objectives.

Every objective is pure-Python float arithmetic on ``x.tolist()`` so that a
re-evaluation of the same genome is bit-identical regardless of array layout,
and so that the "pure twin" used by the C02 oracle is literally the same code
without any tap around it.  A spec is a JSON-serialisable dict.
"""
import math

KINDS = (
    "sphere",
    "ellipsoid",
    "rastrigin",
    "funnel",
    "rosenbrock",
    "linear",
    "stair",
    "constant",
    "discont",
    "big",
    "abszero",
)


def make_pure(spec):
    """Return a pure python function genome -> float for the given spec.

    ``spec['sign']`` is applied last (-1 turns a minimisation landscape into the
    mirrored maximisation landscape; negation is exact in IEEE arithmetic).
    """
    kind = spec["kind"]
    c = [float(v) for v in spec.get("center", [])]
    s = float(spec.get("scale", 1.0))
    sign = float(spec.get("sign", 1.0))
    off = float(spec.get("offset", 0.0))

    if kind == "sphere":

        def f(xs):
            t = 0.0
            for xi, ci in zip(xs, c):
                d = xi - ci
                t += d * d
            return t * s + off

    elif kind == "ellipsoid":

        def f(xs):
            t = 0.0
            k = 1.0
            for xi, ci in zip(xs, c):
                d = xi - ci
                t += k * d * d
                k *= 10.0
            return t * s + off

    elif kind == "rastrigin":

        def f(xs):
            t = 0.0
            for xi, ci in zip(xs, c):
                d = (xi - ci) / s
                t += d * d - 10.0 * math.cos(2.0 * math.pi * d) + 10.0
            return t + off

    elif kind == "funnel":
        centers = [[float(v) for v in cc] for cc in spec["centers"]]
        depths = [float(v) for v in spec["depths"]]

        def f(xs):
            best = None
            for cc, dp in zip(centers, depths):
                t = dp
                for xi, ci in zip(xs, cc):
                    d = xi - ci
                    t += d * d
                if best is None or t < best:
                    best = t
            return best * s + off

    elif kind == "rosenbrock":

        def f(xs):
            t = 0.0
            ys = [(xi - ci) / s + 1.0 for xi, ci in zip(xs, c)]
            for i in range(len(ys) - 1):
                a = ys[i + 1] - ys[i] * ys[i]
                b = 1.0 - ys[i]
                t += 100.0 * a * a + b * b
            return t + off

    elif kind == "linear":
        w = [float(v) for v in spec["weights"]]

        def f(xs):
            t = 0.0
            for xi, wi in zip(xs, w):
                t += xi * wi
            return t * s + off

    elif kind == "stair":
        # plateaus: many exact ties, value exactly 0.0 on the central plateau
        def f(xs):
            t = 0.0
            for xi, ci in zip(xs, c):
                t += math.floor(abs(xi - ci) / s)
            return t + off

    elif kind == "constant":

        def f(xs):
            return off

    elif kind == "discont":

        def f(xs):
            t = 0.0
            for xi, ci in zip(xs, c):
                d = xi - ci
                t += d * d
                if d > 0.0:
                    t += s
            return t + off

    elif kind == "big":

        def f(xs):
            t = 0.0
            for xi, ci in zip(xs, c):
                d = xi - ci
                t += d * d
            return t * 1e12 * s - 1e15 + off

    elif kind == "nanregion":
        # sphere that is undefined (NaN) on a slab of the box: "objective returns NaN for infeasible points"
        cut = float(spec["nan_below"])

        def f(xs):
            if xs[0] < cut:
                return float("nan")
            t = 0.0
            for xi, ci in zip(xs, c):
                d = xi - ci
                t += d * d
            return t * s + off

    elif kind == "infwall":
        # death penalty: infinitely bad (never NaN) on a slab of the box, a sphere elsewhere
        cut = float(spec["inf_below"])

        def f(xs):
            if xs[0] < cut:
                return math.inf
            t = 0.0
            for xi, ci in zip(xs, c):
                d = xi - ci
                t += d * d
            return t * s + off

    elif kind == "infpocket":
        # infinitely GOOD inside a small ball (log-barrier style objective), a sphere elsewhere
        pc = [float(v) for v in spec["pocket"]]
        pr2 = float(spec["pocket_r"]) ** 2

        def f(xs):
            t = 0.0
            q = 0.0
            for xi, ci, pi in zip(xs, c, pc):
                d = xi - ci
                t += d * d
                e = xi - pi
                q += e * e
            if q <= pr2:
                return -math.inf
            return t * s + off

    elif kind == "clipint":
        # a reward clipped with an *integer* constant: returns a Python int where it is clipped, floats elsewhere
        cap = int(spec.get("cap", 50))

        def f(xs):
            t = 0.0
            for xi, ci in zip(xs, c):
                d = xi - ci
                t += d * d
            return min(cap, t * s)

    elif kind == "abszero":
        # |x - c|_1 with integer centre: exact 0.0 reachable on faces / by local search
        def f(xs):
            t = 0.0
            for xi, ci in zip(xs, c):
                t += abs(xi - ci)
            return t * s + off

    else:
        raise ValueError("unknown objective kind %r" % (kind,))

    if kind == "clipint":
        # the raw return type is part of the case: no float() around it
        if sign == 1.0:

            def g(x):
                return f(x.tolist())

        else:

            def g(x):
                return -f(x.tolist())

    elif sign == 1.0:

        def g(x):
            return float(f(x.tolist()))

    else:

        def g(x):
            return -float(f(x.tolist()))

    return g


def known_optimum_value(spec):
    """Optimal value of the un-signed landscape where it is known in closed form
    (used only to parameterise precision wrappers; no oracle depends on it)."""
    kind = spec["kind"]
    off = float(spec.get("offset", 0.0))
    sign = float(spec.get("sign", 1.0))
    if kind in ("sphere", "ellipsoid", "rastrigin", "rosenbrock", "stair", "discont", "abszero", "constant"):
        return sign * off
    if kind == "infpocket":
        return sign * (-math.inf)
    if kind == "infwall":
        return sign * off
    if kind == "funnel":
        return sign * (min(spec["depths"]) * float(spec.get("scale", 1.0)) + off)
    if kind == "big":
        return sign * (-1e15 + off)
    return sign * off


def gen_objective(rng, dim, box, maximize, kinds=None):
    """Draw an objective spec.  ``box`` is a list of [lo, hi]."""
    kind = rng.choice(list(kinds) if kinds else KINDS)
    spec = {"kind": kind, "sign": -1.0 if maximize else 1.0}

    def inside():
        return [lo + (hi - lo) * rng.choice([0.5, 0.25, 0.75, rng.random()]) for lo, hi in box]

    rngs = [hi - lo for lo, hi in box]
    mr = min(rngs)
    spec["center"] = inside()
    if kind == "clipint":
        mr2 = min(hi - lo for lo, hi in box)
        spec["scale"] = 1.0
        spec["cap"] = max(1, int(round((0.35 * mr2) ** 2 * dim)))
    if kind == "nanregion":
        lo0, hi0 = box[0]
        spec["nan_below"] = lo0 + (hi0 - lo0) * rng.choice([0.1, 0.2, 0.3])
    spec["scale"] = 1.0
    spec["offset"] = rng.choice([0.0, 0.0, 0.0, 1.5, -3.0, 100.0])
    if kind == "rastrigin":
        spec["scale"] = mr / rng.choice([4.0, 8.0, 16.0])
    elif kind == "funnel":
        k = rng.randint(2, 4)
        spec["centers"] = [inside() for _ in range(k)]
        spec["depths"] = [0.0] + [rng.choice([0.0, 0.1, 1.0]) * mr * mr * 0.05 for _ in range(k - 1)]
    elif kind == "rosenbrock":
        spec["scale"] = mr / 4.0
    elif kind == "linear":
        spec["weights"] = [rng.choice([-1.0, 1.0, 0.5, -2.0]) for _ in range(dim)]
    elif kind == "stair":
        spec["scale"] = mr / rng.choice([3.0, 6.0, 12.0])
        spec["offset"] = 0.0
    elif kind == "discont":
        spec["scale"] = mr * mr * 0.1
    elif kind == "abszero":
        # integer centre when the box contains one, else the box centre
        cen = []
        for lo, hi in box:
            m = math.floor((lo + hi) / 2.0)
            cen.append(float(m) if lo <= m <= hi else (lo + hi) / 2.0)
        spec["center"] = cen
        spec["offset"] = 0.0
    return spec
