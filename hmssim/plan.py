"""Seeded plan generation.  One integer -> one plan (JSON) -> one exactly repeatable run.

Plans are generated swarm-style: every plan switches a random subset of engine
families, mechanisms, fault kinds and knobs on; a *profile* biases the draw
towards what a property needs.
"""
import copy
import hashlib
import json
import math
import random

from . import objectives

DEFAULT_PROFILE = {
    "dims": [2, 2, 2, 3, 3, 4, 5],
    "levels_w": {1: 2, 2: 5, 3: 3},
    "pop": [4, 16],
    "gens": [1, 1, 2, 2, 3],
    "root_engines": {"ea": 6, "de": 2, "shade": 2, "lhs": 1, "sobol": 1, "custom": 0.5},
    "mid_engines": {"ea": 5, "de": 2, "shade": 2, "cma": 1, "custom": 0.3},
    "leaf_engines": {"ea": 3, "de": 2, "shade": 2, "cma": 4, "local": 2, "lhs": 0.3, "sobol": 0.3, "custom": 0.3},
    "ea_variants": {"SEA": 4, "SEAWithCrossover": 2, "GAStyleSEA": 2, "SEAWithAdaptiveMutation": 2, "MWEA": 1},
    "gsc_w": {"metaepoch_limit": 5, "singular_eval_limit": 3, "fitness_eval_limit": 2, "precision": 1,
              "root_stopped": 1, "all_stopped": 1, "no_active_nonroot": 1, "dont_run": 0.2},
    "lsc_w": {"dont_stop": 4, "metaepoch_limit": 3, "fitness_steadiness": 2, "all_children_stopped": 1,
              "dont_run": 0.5, "eval_budget": 1},
    "sprout_w": {"nbc_factory": 3, "simple_factory": 3, "composed": 4},
    "p_maximize": 0.5,
    "p_hibernation": 0.3,
    "p_seeded": 0.85,
    "p_cutoff": 0.3,
    "p_stop_signal": 0.3,
    "p_lsc_inject": 0.3,
    "p_clock_jumps": 0.2,
    "p_extra_layers": 0.5,
    "p_shared_stack": 0.6,
    "entry_w": {"tree": 9, "hms": 1, "minimize": 0},
    "p_manual_steps": 0.12,
    "p_bounds_form": 0.08,  # read-only non-contiguous view / Fortran-ordered bounds array
    "p_np_ints": 0.08,  # pop_size, generations, limits as numpy.int64
    "p_np_return": 0.15,  # the objective returns numpy.float64 (what np.sum(x ** 2) gives)
    "p_inf_objective": 0.06,  # infinite (never NaN) objective values: death-penalty wall / infinitely good pocket
    "p_no_elite": 0.0,
    "p_bounds_int": 0.1,  # bounds given as an integer array, as in the README
    "p_long_run": 0.04,  # 40-80 metaepochs with small populations: archives wrap round, CMA-ES terminates itself, ...  # entry "tree" replaced by a manual `while not gsc(tree): tree.run_step()` loop
    "metaepochs": [2, 12],
    "level_limit": [1, 4],
    "p_no_level_limit": 0.1,
    "objective_kinds": None,  # None = all
    "box_kinds": {"sym": 4, "asym": 2, "decimal": 2, "tiny": 0.5, "huge": 0.5, "far": 1},
    "log_levels": ["warning", "warning", "debug", "error"],
    "allow_qmc_unseeded": False,
}


def profile(**over):
    p = copy.deepcopy(DEFAULT_PROFILE)
    for k, v in over.items():
        if isinstance(v, dict) and isinstance(p.get(k), dict) and not over.get("_replace_" + k):
            p[k] = dict(p[k])
            p[k].update(v)
        else:
            p[k] = v
    return p


def wchoice(rng, weights):
    items = [(k, w) for k, w in weights.items() if w > 0]
    tot = sum(w for _, w in items)
    r = rng.random() * tot
    acc = 0.0
    for k, w in items:
        acc += w
        if r < acc:
            return k
    return items[-1][0]


def loguniform_int(rng, lo, hi):
    return int(round(math.exp(rng.uniform(math.log(lo), math.log(hi)))))


def run_seed(verif_seed, prop, i):
    h = hashlib.sha256(("%d/%s/%d" % (verif_seed, prop, i)).encode()).digest()
    return int.from_bytes(h[:6], "big")


def gen_box(rng, dim, prof):
    kind = wchoice(rng, prof["box_kinds"])
    if kind == "sym":
        k = rng.choice([1.0, 5.0, 10.0, 20.0])
        return [[-k, k] for _ in range(dim)], kind
    if kind == "asym":
        box = []
        for _ in range(dim):
            lo = rng.choice([-7.0, -3.0, 0.0, 2.0])
            box.append([lo, lo + rng.choice([1.0, 4.0, 10.0, 13.0])])
        return box, kind
    if kind == "decimal":
        opts = [[-0.1, 0.2], [0.1, 0.7], [-0.3, 0.3], [0.1, 0.3], [-1.1, 2.2]]
        return [list(rng.choice(opts)) for _ in range(dim)], kind
    if kind == "tiny":
        c = rng.choice([0.0, 1.0, -2.5])
        return [[c - 1e-6, c + 1e-6] for _ in range(dim)], kind
    if kind == "huge":
        return [[-1e6, 1e6] for _ in range(dim)], kind
    if kind == "far":
        c = rng.choice([1000.0, -5000.0, 123456.0, 3.0e7])
        return [[c, c + rng.choice([1.0, 3.0, 10.0])] for _ in range(dim)], kind
    raise ValueError(kind)


def gen_lsc(rng, prof, level, nlevels, engine, metaepochs):
    w = dict(prof["lsc_w"])
    if level == nlevels - 1:
        w["all_children_stopped"] = 0
    k = wchoice(rng, w)
    if k == "metaepoch_limit":
        return {"kind": k, "limit": rng.randint(1, max(2, metaepochs // 2 + 1))}
    if k == "fitness_steadiness":
        return {"kind": k, "max_deviation": rng.choice([1e-3, 0.1, 10.0, 1e6]), "n_metaepochs": rng.randint(1, 4)}
    if k == "eval_budget":
        return {"kind": k, "n": loguniform_int(rng, 10, 600)}
    return {"kind": k}


def gen_level(rng, prof, level, nlevels, minr, metaepochs):
    if level == 0:
        e = wchoice(rng, prof["root_engines"])
    elif level == nlevels - 1:
        e = wchoice(rng, prof["leaf_engines"])
    else:
        e = wchoice(rng, prof["mid_engines"])
    lo, hi = prof["pop"]
    spec = {"engine": e}
    gens = rng.choice(prof["gens"])
    ssd = minr * rng.choice([0.01, 0.05, 0.1, 0.25, 0.5])
    if e == "ea":
        v = wchoice(rng, prof["ea_variants"])
        pop = rng.randint(lo, hi)
        spec.update({
            "ea": v,
            "pop_size": pop,
            "generations": gens,
            "mutation_std": minr * rng.choice([0.005, 0.02, 0.05, 0.1, 0.3]),
            "p_mutation": rng.choice([1.0, 1.0, 0.5, 0.2]),
            "k_elites": rng.choice([1, 1, 2, max(1, pop // 2), pop]),
            "sample_std_dev": ssd,
        })
        if v in ("SEAWithCrossover", "GAStyleSEA"):
            spec["p_crossover"] = rng.choice([0.0, 0.3, 0.7, 1.0])
        if v == "SEAWithAdaptiveMutation":
            spec["mutation_std_step"] = rng.choice([None, minr * 0.01, minr * 0.05])
        if v == "MWEA":
            pop = max(pop, 6)
            spec["pop_size"] = pop
            egs = rng.randint(3, min(pop, 8))
            spec["election_group_size"] = egs
            spec["k_elites"] = rng.randint(1, min(3, egs))
    elif e == "de":
        spec.update({"pop_size": rng.randint(max(4, lo), max(5, hi)), "generations": gens,
                     "dither": rng.random() < 0.5, "scaling": rng.choice([0.3, 0.5, 0.8, 1.2]),
                     "crossover": rng.choice([0.0, 0.3, 0.9, 1.0]), "sample_std_dev": ssd})
    elif e == "shade":
        spec.update({"pop_size": rng.randint(max(4, lo), max(5, hi)), "generations": gens,
                     "memory_size": rng.choice([1, 2, 5, 20]), "sample_std_dev": ssd})
    elif e == "cma":
        mode = rng.choice(["fixed", "fixed", "warm", "stds", "stds_sigma"])
        spec["generations"] = rng.choice(prof["gens"] + [4, 6])
        if mode == "fixed":
            spec["sigma0"] = minr * rng.choice([0.01, 0.05, 0.1, 0.25, 1e-7])
        elif mode == "warm":
            spec["sigma0"] = None
        elif mode == "stds":
            spec["sigma0"] = None
            spec["set_stds"] = True
        else:
            spec["sigma0"] = rng.choice([0.5, 1.0, 2.0])
            spec["set_stds"] = True
    elif e == "local":
        spec["maxiter"] = rng.choice([None, None, 1, 3, 10])
    elif e in ("lhs", "sobol", "custom"):
        spec["pop_size"] = rng.choice([4, 8, 8, 16, rng.randint(lo, hi)])
    spec["lsc"] = gen_lsc(rng, prof, level, nlevels, e, metaepochs)
    return spec


def gen_sprout(rng, prof, nlevels, minr, levels):
    kind = wchoice(rng, prof["sprout_w"])
    ll = rng.randint(*prof["level_limit"])
    if kind == "nbc_factory":
        return {"factory": "nbc", "gen_dist_factor": rng.choice([1.0, 1.5, 2.0, 3.0]),
                "trunc_factor": rng.choice([0.5, 0.7, 1.0]), "fil_dist_factor": rng.choice([0.5, 1.0, 3.0]),
                "level_limit": ll}
    if kind == "simple_factory":
        return {"factory": "simple", "far_enough": minr * rng.choice([0.01, 0.05, 0.2, 0.5]), "level_limit": ll}
    local_ok = nlevels == 3 and levels[-1]["engine"] in ("local", "cma", "ea", "de")
    gk = rng.choice(["best", "nbc", "nbc", "nbc_local" if local_ok else "nbc"])
    gen = {"kind": gk}
    if gk != "best":
        gen["distance_factor"] = rng.choice([0.8, 1.0, 1.5, 2.0, 3.0])
        gen["truncation_factor"] = rng.choice([0.5, 0.7, 1.0])
    dfs = []
    if rng.random() < 0.6:
        dfs.append({"kind": "far_enough", "min_distance": minr * rng.choice([0.01, 0.05, 0.2, 0.5]),
                    "norm_ord": rng.choice([1, 2, 2, "inf", 1.5])})
    if gk != "best" and rng.random() < 0.6:
        dfs.append({"kind": "nbc_far_enough", "factor": rng.choice([0.5, 1.0, 2.0, 3.0]),
                    "norm_ord": rng.choice([1, 2, 2, "inf", 2.5]), "check_only_active": rng.random() < 0.5})
    if rng.random() < 0.7:
        dfs.append({"kind": "deme_limit", "limit": rng.choice([1, 1, 2, 3])})
    rng.shuffle(dfs)
    tfs = []
    if rng.random() >= prof["p_no_level_limit"]:
        tfs.append({"kind": "level_limit", "limit": ll})
    else:
        if not any(f["kind"] == "deme_limit" for f in dfs):
            dfs.append({"kind": "deme_limit", "limit": 1})
    if rng.random() < 0.4:
        tfs.append({"kind": "skip_same"})
    rng.shuffle(tfs)
    return {"generator": gen, "deme_filters": dfs, "tree_filters": tfs}


def gen_stack(rng, prof, cutoff_n, opt, eps, want_precision):
    layers = []
    if rng.random() < prof["p_extra_layers"]:
        kinds = []
        for k in ("count", "stats", "precision"):
            if rng.random() < 0.4:
                kinds.append(k)
        for k in kinds:
            if k == "precision":
                layers.append({"kind": "precision", "opt": opt, "eps": eps})
            else:
                layers.append({"kind": k})
    if want_precision and not any(l["kind"] == "precision" for l in layers):
        layers.append({"kind": "precision", "opt": opt, "eps": eps})
    if cutoff_n is not None:
        layers.append({"kind": "cutoff", "n": cutoff_n})
    rng.shuffle(layers)
    return {"layers": layers[:4]}


def gen_plan(seed, prof=None, prop="GEN"):
    prof = prof or DEFAULT_PROFILE
    rng = random.Random(seed)
    plan = {"seed": seed, "prop": prop, "version": 1}
    entry = wchoice(rng, prof["entry_w"])
    plan["entry"] = entry
    dim = rng.choice(prof["dims"])
    box, box_kind = gen_box(rng, dim, prof)
    plan["dim"] = dim
    plan["box"] = box
    plan["box_kind"] = box_kind
    minr = min(hi - lo for lo, hi in box)
    maximize = rng.random() < prof["p_maximize"]
    if entry == "minimize":
        maximize = False
    plan["maximize"] = maximize
    obj = objectives.gen_objective(rng, dim, box, maximize, prof["objective_kinds"])
    if rng.random() < 0.15:
        obj["sign"] = -obj["sign"]  # e.g. maximise a convex bowl: optimum in a corner
    plan["objective"] = obj
    plan["objective_form"] = rng.choice(["closure", "closure", "lambda", "callable"])
    plan["prior_seed"] = rng.randrange(2**31)
    plan["prior_junk"] = rng.choice([0, 0, 3, 17])
    plan["entropy_seed"] = rng.randrange(2**31)
    clock = {"start": rng.choice([1000.0, 0.0, 1.7e9]), "cost": rng.choice([1e-3, 1e-6, 0.5])}
    if rng.random() < prof["p_clock_jumps"]:
        jumps = {}
        for _ in range(rng.randint(1, 4)):
            jumps[str(loguniform_int(rng, 1, 2000))] = rng.choice([0.0, 0.0, 5.0, 86400.0, 3.2e7])
        clock["jumps"] = jumps
    plan["clock"] = clock

    if entry == "minimize":
        m = {"seed": rng.choice([None, rng.randrange(10**6)]) if rng.random() > prof["p_seeded"] else rng.randrange(10**6)}
        if rng.random() < 0.75:
            m["maxfun"] = loguniform_int(rng, 5, 1500)
            m["maxiter"] = rng.choice([None, None, rng.randint(1, 8)])
        else:
            m["maxfun"] = None
            m["maxiter"] = rng.randint(1, 8)
        m["bounds_as_list"] = rng.random() < 0.5
        plan["minimize"] = m
        plan["faults"] = {}
        plan["caps"] = {"metaepochs": 60, "evals": 30000, "consults": 6000}
        return plan

    nlevels = int(wchoice(rng, {str(k): v for k, v in prof["levels_w"].items()}))
    metaepochs = rng.randint(*prof["metaepochs"])
    levels = [gen_level(rng, prof, li, nlevels, minr, metaepochs) for li in range(nlevels)]
    plan["levels"] = levels
    if entry == "hms" and any(l["engine"] == "custom" for l in levels):
        plan["entry"] = "tree"  # hms() has no config_class_to_deme_class parameter

    # options
    seeded = rng.random() < prof["p_seeded"]
    uses_qmc = any(l["engine"] in ("lhs", "sobol") for l in levels)
    if uses_qmc and not prof["allow_qmc_unseeded"]:
        seeded = True
    options = {}
    if seeded:
        options["random_seed"] = rng.choice([0, 1, 42, rng.randrange(2**20)])
    elif rng.random() < 0.5:
        options["random_seed"] = None
    if rng.random() < prof["p_hibernation"]:
        options["hibernation"] = True
    elif rng.random() < 0.3:
        options["hibernation"] = False
    ll = rng.choice(prof["log_levels"])
    if ll != "warning" or rng.random() < 0.5:
        options["log_level"] = ll
    plan["options"] = options

    # global stop condition
    gsc_w = dict(prof["gsc_w"])
    if nlevels == 1:
        gsc_w["no_active_nonroot"] = 0
    gk = wchoice(rng, gsc_w)
    gsc = {"kind": gk}
    rough = 0
    for l in levels:
        rough += l.get("pop_size", 8) * l.get("generations", 1)
    if gk == "metaepoch_limit":
        gsc["limit"] = metaepochs
    elif gk in ("singular_eval_limit", "fitness_eval_limit"):
        gsc["limit"] = loguniform_int(rng, max(4, levels[0].get("pop_size", 8) // 2), max(50, rough * metaepochs * 2))
        if gk == "fitness_eval_limit":
            gsc["weights"] = rng.choice(["equal", "default", "root", None,
                                         [rng.choice([0, 0.5, 1, 2]) for _ in range(nlevels)]])
            if isinstance(gsc["weights"], list) and not any(gsc["weights"]):
                gsc["weights"][0] = 1
    elif gk == "no_active_nonroot":
        gsc["n"] = rng.randint(0, 3)
    elif gk == "root_stopped":
        if levels[0]["lsc"]["kind"] in ("dont_stop", "all_children_stopped", "fitness_steadiness"):
            levels[0]["lsc"] = {"kind": "metaepoch_limit", "limit": rng.randint(1, metaepochs)}
    elif gk == "all_stopped":
        for l in levels:
            if l["lsc"]["kind"] in ("dont_stop", "fitness_steadiness"):
                l["lsc"] = {"kind": "metaepoch_limit", "limit": rng.randint(1, max(1, metaepochs // 2))}
    elif gk == "no_active_nonroot":
        pass
    plan["gsc"] = gsc

    # problem stacks
    opt = objectives.known_optimum_value(obj)
    eps = rng.choice([1e-8, 1e-3, 0.1, 1.0, 100.0]) * max(1.0, minr * minr)
    cutoff_n = None
    if rng.random() < prof["p_cutoff"]:
        cutoff_n = loguniform_int(rng, 1, max(30, rough * metaepochs * 2))
    shared = rng.random() < prof["p_shared_stack"]
    stacks = []
    level_stack = []
    if shared:
        stacks.append(gen_stack(rng, prof, cutoff_n, opt, eps, gk == "precision"))
        level_stack = [0] * nlevels
    else:
        for li in range(nlevels):
            cn = cutoff_n if (cutoff_n is not None and rng.random() < 0.6) else None
            stacks.append(gen_stack(rng, prof, cn, opt, eps, gk == "precision" and li == 0))
            level_stack.append(li)
    plan["stacks"] = stacks
    plan["level_stack"] = level_stack
    if gk == "precision":
        gsc["stack"] = 0

    plan["sprout"] = gen_sprout(rng, prof, nlevels, minr, levels)

    # faults
    faults = {}
    if rng.random() < prof["p_stop_signal"]:
        faults["stop_at_consult"] = loguniform_int(rng, 1, 150)
    if rng.random() < prof["p_lsc_inject"]:
        faults["lsc_inject"] = [[rng.randint(0, 8), rng.randint(1, 6)] for _ in range(rng.randint(1, 4))]
    plan["faults"] = faults
    plan["caps"] = {"metaepochs": 40, "evals": 40000, "consults": 4000}
    # drawn last, from an independent stream, so that the plans of earlier versions keep their shape
    r2 = random.Random(seed ^ 0x57E95)
    if plan["entry"] == "tree" and r2.random() < prof.get("p_manual_steps", 0.0):
        plan["entry"] = "steps"
    if r2.random() < prof.get("p_long_run", 0.0) and plan["gsc"]["kind"] in ("metaepoch_limit", "singular_eval_limit"):
        plan["gsc"] = {"kind": "metaepoch_limit", "limit": r2.randint(40, 80)}
        plan["caps"]["metaepochs"] = 120
        plan["long_run"] = True
        for l in plan["levels"]:
            if "pop_size" in l:
                l["pop_size"] = min(l["pop_size"], 8 if l.get("ea") != "MWEA" else 8)
                if l.get("ea") == "MWEA":
                    l["pop_size"] = max(6, l["pop_size"])
                    l["election_group_size"] = min(l.get("election_group_size", 3), l["pop_size"])
                if l["engine"] in ("de", "shade"):
                    l["pop_size"] = max(4, l["pop_size"])
            if l["engine"] == "shade":
                l["memory_size"] = r2.choice([1, 2, 3])
            if "k_elites" in l and l.get("ea") != "MWEA":
                l["k_elites"] = min(l["k_elites"], l["pop_size"])
        f = plan.get("faults", {})
        if f.get("stop_at_consult") is not None:
            f["stop_at_consult"] = f["stop_at_consult"] * 8
    r3 = random.Random(seed ^ 0xB0B0)
    if r3.random() < prof.get("p_bounds_int", 0.0) and all(float(v).is_integer() for b in plan["box"] for v in b):
        plan["bounds_int"] = True  # np.array([(-5, 5)] * 2), as in the README: an integer array
    if "levels" in plan and r3.random() < prof.get("p_no_elite", 0.0):
        for l in plan["levels"]:
            if l["engine"] == "ea" and l.get("ea") != "MWEA" and "k_elites" in l and r3.random() < 0.7:
                l["k_elites"] = 0  # a non-elitist ("comma") strategy
    if r3.random() < prof.get("p_inf_objective", 0.0) and "levels" in plan and not plan.get("stack_objectives") \
            and plan["objective"]["kind"] not in ("nanregion", "clipint"):
        o = plan["objective"]
        box = plan["box"]
        cen = o.get("center") or [(lo + hi) / 2.0 for lo, hi in box]
        new = {"sign": o.get("sign", 1.0), "center": cen, "scale": 1.0, "offset": o.get("offset", 0.0)}
        if r3.random() < 0.75:
            lo0, hi0 = box[0]
            new["kind"] = "infwall"
            # the optimum stays feasible; sometimes it lies right next to the wall
            new["inf_below"] = min(lo0 + (hi0 - lo0) * r3.choice([0.1, 0.3, 0.45]), cen[0] - (hi0 - lo0) * r3.choice([0.0, 0.02, 0.2]))
        else:
            new["kind"] = "infpocket"
            new["pocket"] = [lo + (hi - lo) * r3.choice([0.3, 0.6, 0.8]) for lo, hi in box]
            new["pocket_r"] = min(hi - lo for lo, hi in box) * r3.choice([0.02, 0.08, 0.2])
        plan["objective"] = new
        plan["inf_objective"] = True
        if plan["gsc"]["kind"] == "precision":
            plan["gsc"] = {"kind": "metaepoch_limit", "limit": 6}
    if r3.random() < prof.get("p_np_return", 0.0) and plan.get("objective_form") in ("closure", "lambda"):
        plan["return_type"] = "np.float64"
    if r3.random() < prof.get("p_np_ints", 0.0):
        plan["np_ints"] = True  # population sizes, generations, limits given as numpy.int64
    if plan.get("bounds_int"):
        pass
    elif r3.random() < prof.get("p_bounds_form", 0.0):
        plan["bounds_form"] = r3.choice(["readonly_view", "fortran"])
    return plan


def plan_json(plan):
    return json.dumps(plan, sort_keys=True)


def nan_stratum(plan, seed):
    """Turn a tree plan into one of the NaN stratum: the objective is NaN on a slab of the box and the engines are
    the ones that tolerate NaN fitness values (SEA family, DE, SHADE, LHS, Sobol, custom random search)."""
    import random as _r

    if "levels" not in plan:
        return plan
    r = _r.Random(seed ^ 0x4E414E)
    box = plan["box"]
    lo0, hi0 = box[0]
    plan["objective"] = {"kind": "nanregion", "sign": plan["objective"].get("sign", 1.0), "scale": 1.0, "offset": 0.0,
                         "center": [lo + (hi - lo) * 0.6 for lo, hi in box],
                         "nan_below": lo0 + (hi0 - lo0) * r.choice([0.15, 0.3, 0.45])}
    minr = min(hi - lo for lo, hi in box)
    for li, l in enumerate(plan["levels"]):
        if l["engine"] in ("cma", "local") or l.get("ea") == "MWEA":
            plan["levels"][li] = {"engine": "de", "pop_size": r.randint(4, 10), "generations": r.choice([1, 2]),
                                  "dither": r.random() < 0.5, "scaling": 0.8, "crossover": 0.9,
                                  "sample_std_dev": minr * 0.1, "lsc": l["lsc"]}
    for st in plan["stacks"]:
        st["layers"] = [x for x in st["layers"] if x["kind"] != "precision"]
    if plan["gsc"]["kind"] == "precision":
        plan["gsc"] = {"kind": "metaepoch_limit", "limit": r.randint(3, 8)}
    plan["nan_stratum"] = True
    return plan
